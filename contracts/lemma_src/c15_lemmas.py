"""Lemma functions for C15: the class invariant of CountMinSketch over the contracts of _add and query."""


def cms_add_preserves(sketch, x, delta, weight, total):
    CountMinSketch._add(sketch.M, x, sketch.depth, sketch.width, sketch.hash_seeds, delta)


def cms_query_bounds(sketch, x, weight, total):
    return CountMinSketch.query(sketch, x)
