"""Lemma functions (Dafny style): ghost code over the *contracts* of repository functions.
Verified by the same engine; callee bodies are not visible here, only their contracts."""


def fair_step(L, args):
    selected = prior_combinations_sample(L, args)
    return selected


def disjoint_call_keeps_fair(L, other, args):
    selected = prior_combinations_sample(other, args)
    return selected
