"""Sidecar contracts, keyed by function.  Nothing under /repo is edited."""
import importlib
import pkgutil


def load_all():
    reg = {}
    for m in pkgutil.iter_modules(__path__):
        mod = importlib.import_module(f'{__name__}.{m.name}')
        for key, c in getattr(mod, 'CONTRACTS', {}).items():
            c = dict(c)
            c.setdefault('module', getattr(mod, 'MODULE', None))
            c.setdefault('qualname', key)
            c['module_name'] = c['module'].rsplit('/', 1)[-1][:-3]
            c['key'] = key
            if c.get('pure'):
                c['ensures'] = list(c.get('ensures', [])) + [('pure', f"result == ({c['pure']})")]
            for fld in ('requires', 'ensures'):
                nat = {}
                norm = []
                for item in c.get(fld, []):
                    norm.append((item[0], item[1]))
                    if len(item) > 2:
                        nat[item[0]] = item[2]
                c[fld] = norm
                c[fld + '_native'] = nat
            reg[key] = c
    return reg
