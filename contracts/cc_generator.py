"""Contracts for outrank/algorithms/synthetic_data_generators/cc_generator.py (C19, C20)."""
MODULE = 'outrank/algorithms/synthetic_data_generators/cc_generator.py'
SELF = {'__class__': 'CategoricalClassification'}

CONTRACTS = {
    'CategoricalClassification._generate_feature': dict(
        params={'self': SELF, 'size': 'int', 'vec': 'opt[int64[:]]', 'cardinality': 'int', 'ensure_rep': 'bool',
                'random_values': 'bool', 'low': 'int', 'high': 'int', 'p': 'opt[float64[:]]', 'k': 'real'},
        requires=[
            ('size', 'size >= 0'), ('scale', 'k > 0'),
            ('cardinality', 'implies(vec is None, cardinality >= 1)'),
            ('explicit_domain', 'implies(vec is not None, len(some(vec)) >= 1)'),
            ('bounds', 'implies(vec is None and random_values, low <= high and cardinality <= high - low + 1)'),
            ('int32_values', '-2**31 <= low and low + cardinality <= 2**31 and high < 2**31 and '
                             'implies(vec is not None, all(-2**31 <= some(vec)[j] and some(vec)[j] < 2**31 for j in range(len(some(vec)))))'),
            ('probabilities', 'implies(p is not None, vec is not None and len(some(p)) == len(some(vec)) and sumR(some(p), len(some(p))) != 0)'),
        ],
        returns='int32[:]',
        ensures=[
            ('one_value_per_sample', 'len(result) == size'),
            ('default_domain', 'implies(old(vec) is None and not random_values, all(low <= result[i] and result[i] < low + cardinality for i in range(size)))'),
            ('random_domain', 'implies(old(vec) is None and random_values, all(low <= result[i] and result[i] <= high for i in range(size)))'),
            ('explicit_domain', 'implies(old(vec) is not None, all(result[i] in some(old(vec)) for i in range(size)))'),
            ('every_default_value_represented', 'implies(ensure_rep and old(vec) is None and not random_values and cardinality <= size, '
                                                'all(any(result[i] == v for i in range(size)) for v in range(low, low + cardinality)))'),
            ('every_listed_value_represented', 'implies(ensure_rep and old(vec) is not None and len(some(old(vec))) <= size, '
                                               'all(any(result[i] == some(old(vec))[j] for i in range(size)) for j in range(len(some(old(vec))))))'),
        ],
    ),

    # ---------------------------------------------------------------- C20
    'CategoricalClassification.generate_duplicates': dict(
        params={'self': {'__class__': 'CategoricalClassification',
                         'dataset_info': {'__class__': 'InfoDict', 'duplicates': {'__class__': 'PyList', 'items': 'pylist'}}},
                'X': 'int32[:,:]', 'feature_indices': 'int64[:]'},
        modifies=['param:self'],
        requires=[('rows', 'nrows(X) >= 1 and ncols(X) >= 1'),
                  ('indices', 'all(0 <= feature_indices[j] and feature_indices[j] < ncols(X) for j in range(len(feature_indices)))')],
        returns='int32[:,:]',
        ensures=[
            ('shape', 'nrows(result) == nrows(X) and ncols(result) == ncols(X) + len(feature_indices)'),
            ('originals_untouched', 'all(result[r, c] == X[r, c] for r in range(nrows(X)) for c in range(ncols(X)))'),
            ('exact_copies', 'all(result[r, ncols(X) + j] == X[r, feature_indices[j]] for r in range(nrows(X)) for j in range(len(feature_indices)))'),
            ('recorded_indices', 'len(last(self.dataset_info["duplicates"])["duplicate_indices"]) == len(feature_indices) and '
                                 'all(last(self.dataset_info["duplicates"])["duplicate_indices"][j] == ncols(X) + j for j in range(len(feature_indices)))'),
            ('one_record_added', 'count_items(self.dataset_info["duplicates"]) == 1'),
        ],
    ),
    'CategoricalClassification.generate_combinations': dict(
        params={'self': {'__class__': 'CategoricalClassification',
                         'dataset_info': {'__class__': 'InfoDict', 'combinations': {'__class__': 'PyList', 'items': 'pylist'}}},
                'X': 'int32[:,:]', 'feature_indices': 'int64[:]', 'combination_function': 'none', 'combination_type': 'str'},
        modifies=['param:self'],
        requires=[('rows', 'nrows(X) >= 1 and ncols(X) >= 1'),
                  ('type', 'combination_type == "linear" or combination_type == "nonlinear"'),
                  ('indices', 'all(0 <= feature_indices[j] and feature_indices[j] < ncols(X) for j in range(len(feature_indices)))')],
        returns='float64[:,:]',
        ensures=[
            ('shape', 'nrows(result) == nrows(X) and ncols(result) == ncols(X) + 1'),
            ('originals_untouched', 'all(result[r, c] == X[r, c] for r in range(nrows(X)) for c in range(ncols(X)))'),
            ('linear_is_the_sum', 'implies(combination_type == "linear", all(result[r, ncols(X)] == rowsum(X, feature_indices, r) for r in range(nrows(X))))'),
            ('nonlinear_is_sin_of_the_sum', 'implies(combination_type == "nonlinear", all(result[r, ncols(X)] == sin(rowsum(X, feature_indices, r)) for r in range(nrows(X))))'),
            ('recorded_index', 'last(self.dataset_info["combinations"])["combination_ix"] == ncols(X)'),
        ],
    ),
}
