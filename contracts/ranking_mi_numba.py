"""Contracts for outrank/algorithms/feature_ranking/ranking_mi_numba.py (C01-C04)."""
MODULE = 'outrank/algorithms/feature_ranking/ranking_mi_numba.py'

VALID_A = [
    ('nonempty', 'len(a) >= 1'),
    ('size', 'len(a) <= 10**6'),
    ('codes', 'all(0 <= a[i] and a[i] < 2**20 for i in range(len(a)))'),
]

CONTRACTS = {
    'numba_unique': dict(
        params={'a': 'int32[:]'},
        requires=VALID_A,
        returns=['int32[:]', 'int32[:]'],
        lemmas=['cnt_bounds', 'cnt_absent', 'cnt_present'],
        ensures=[
            ('same_len', 'len(result[0]) == len(result[1])'),
            ('len_pos', 'len(result[0]) >= 1'),
            ('increasing', 'all(result[0][k] < result[0][k + 1] for k in range(len(result[0]) - 1))'),
            ('in_range', 'all(0 <= result[0][k] and result[0][k] < 2**20 for k in range(len(result[0])))'),
            ('counts', 'all(result[1][k] == cnt(a, result[0][k], len(a)) for k in range(len(result[0])))'),
            ('positive', 'all(result[1][k] > 0 for k in range(len(result[1])))'),
            ('complete', 'all(implies(cnt(a, v, len(a)) > 0, any(result[0][k] == v for k in range(len(result[0])))) '
                         'for v in range(0, 2**20))'),
        ],
        loops={1: dict(index='i', inv=[
            ('hist', 'all(container[v] == cnt(a, v, i) for v in range(len(container)))'),
        ])},
    ),

    'compute_conditional_entropy': dict(
        params={'Y_classes': 'uint32[:]', 'class_values': 'int32[:]', 'class_var_shape': 'int',
                'initial_prob': 'real', 'nonzero_counts': 'uint32[:]'},
        requires=[('shape_pos', 'class_var_shape > 0'),
                  ('lens', 'len(nonzero_counts) >= len(class_values)')],
        returns='real',
        ensures=[('weighted_entropy',
                  'result == went(initial_prob, nonzero_counts, class_var_shape, len(class_values))')],
        loops={1: dict(index='k', inv=[
            ('index', 'index == k'),
            ('acc', 'conditional_entropy == went(initial_prob, nonzero_counts, class_var_shape, k)'),
        ])},
    ),
    'compute_entropies': dict(
        params={'X': 'int32[:]', 'Y': 'int32[:]', 'all_events': 'int', 'f_values': 'int32[:]',
                'f_value_counts': 'int32[:]', 'cardinality_correction': 'bool'},
        requires=[
            ('lens', 'len(X) == len(Y) and len(X) >= 1 and len(X) <= 10**6'),
            ('codes', 'all(0 <= Y[i] and Y[i] < 2**20 for i in range(len(Y)))'),
            ('events', 'all_events >= 1 and all_events <= 10**6'),
            ('strata', 'len(f_values) == len(f_value_counts)'),
            ('counts_pos', 'all(f_value_counts[j] >= 1 and f_value_counts[j] <= 10**6 for j in range(len(f_values)))'),
        ],
        returns='real',
        ghost_out={'g_cv': 'int32[:]', 'g_cc': 'int32[:]'},
        ghost_bind={'g_cv': 'class_values', 'g_cc': 'class_counts'},
        lemmas=['cnt_bounds', 'cntg_bounds', 'cntgs_bounds', 'went_ext', 'cnt_shift'],
        ensures=[
            ('support_len', 'len(g_cv) == len(g_cc) and len(g_cv) >= 1'),
            ('support_sorted', 'all(g_cv[k] < g_cv[k + 1] for k in range(len(g_cv) - 1))'),
            ('support_counts', 'all(g_cc[k] == cnt(Y, g_cv[k], len(Y)) and g_cc[k] > 0 for k in range(len(g_cv)))'),
            ('support_complete', 'all(implies(cnt(Y, v, len(Y)) > 0, any(g_cv[k] == v for k in range(len(g_cv)))) '
                                 'for v in range(0, 2**20))'),
            ('plain', 'implies(not cardinality_correction, result == entsum(g_cc, all_events, len(g_cv)) '
                      '- condsum(X, Y, f_values, f_value_counts, all_events, g_cv, len(f_values)))'),
            ('corrected', 'implies(cardinality_correction, result == '
                          'condsum_bg(X, Y, f_values, f_value_counts, all_events, g_cv, len(f_values)) '
                          '- condsum(X, Y, f_values, f_value_counts, all_events, g_cv, len(f_values)))'),
        ],
        loops={
            1: dict(index='k1', inv=[('entropy', 'full_entropy == entsum(class_counts, all_events, k1)')]),
            2: dict(index='j', inv=[
                ('cond', 'conditional_entropy == condsum(X, Y, f_values, f_value_counts, all_events, class_values, j)'),
                ('bg', 'background_cond_entropy == ite(cardinality_correction, '
                       'condsum_bg(X, Y, f_values, f_value_counts, all_events, class_values, j), 0.0)'),
            ]),
            3: dict(index='t3', inv=[
                ('spoof', 'all(Y_classes_spoofed[t] == Y[(x_value_subspace[0][t] + _f_value_counts) % len(Y)] '
                          'for t in range(t3))'),
            ]),
            4: dict(index='t4', inv=[
                ('real', 'all(nonzero_class_counts[t] == cntg(Y, x_value_subspace[0], class_values[t], subspace_size) '
                         'for t in range(t4))'),
                ('spoofed', 'all(nonzero_class_counts_spoofed[t] == cntgs(Y, x_value_subspace[0], _f_value_counts, '
                            'len(Y), class_values[t], subspace_size) for t in range(t4))'),
            ]),
        },
    ),

    'stratified_subsampling': dict(
        params={'Y': 'int32[:]', 'X': 'int32[:]', 'approximation_factor': 'real', '_f_values_X': 'int32[:]'},
        requires=[
            ('lens', 'len(X) == len(Y) and len(X) >= 1 and len(X) <= 10**6'),
            ('ratio', '0 < approximation_factor and approximation_factor < 1'),
            ('strata', 'len(_f_values_X) >= 1'),
            ('strata_nonempty', 'all(cnt(X, _f_values_X[j], len(X)) >= 1 for j in range(len(_f_values_X)))'),
            ('codes', 'all(0 <= Y[i] and Y[i] < 2**20 for i in range(len(Y)))'),
        ],
        returns=['int32[:]', 'int32[:]'],
        lemmas=['offs_mono', 'offs_block', 'cnt_bounds'],
        lemma_map={'inv#1.preserve.prefix': []},
        ghost_out={'g_q': 'int'},
        ghost_bind={'g_q': 'unique_samples_per_val'},
        # the two scalars are non-linear truncating expressions of (ratio, n): their facts are proved once, where they are computed,
        # and later VCs only see the names space_of / quota_of (hidden definitions)
        summarize={
            'final_space_size =': dict(var='final_space_size', facts=[
                ('s_def', 'final_space_size == space_of(approximation_factor, len(X))'),
                ('s_range', 'final_space_size >= 0 and final_space_size <= len(X)')]),
            'unique_samples_per_val =': dict(var='unique_samples_per_val', facts=[
                ('q_def', 'unique_samples_per_val == quota_of(approximation_factor, len(X), len(_f_values_X))'),
                ('q_nonneg', 'unique_samples_per_val >= 0'),
                ('q_room', 'len(_f_values_X) * unique_samples_per_val <= final_space_size')]),
        },
        unfold_map={'summary[final_space_size]': ['space_of'], 'summary[unique_samples_per_val]': ['space_of', 'quota_of']},
        asserts={
            'loop#1.body': [('room_step', '(len(_f_values_X) - k) * unique_samples_per_val >= unique_samples_per_val')],
            'after:x_indices_len =': [
                ('xlen', 'x_indices_len == min2(unique_samples_per_val, len(where_idx(X, fval)))'),
                ('xcells', 'all(x_indices[t] == where_idx(X, fval)[t] for t in range(x_indices_len))'),
                ('xrange', 'all(0 <= x_indices[t] and x_indices[t] < len(X) for t in range(x_indices_len))')],
        },
        ensures=[
            ('quota', 'g_q == quota_of(approximation_factor, len(old(X)), len(_f_values_X)) and g_q >= 0'),
            ('quota_zero', 'implies(g_q == 0, same_seq(result[0], old(Y)) and same_seq(result[1], old(X)))'),
            ('lens', 'len(result[0]) == len(result[1]) and len(result[1]) >= 1 and len(result[1]) <= len(old(X))'),
            ('codes', 'all(0 <= result[0][p] and result[0][p] < 2**20 for p in range(len(result[0])))'),
            ('size', 'implies(g_q > 0, len(result[1]) == offs(old(X), _f_values_X, g_q, len(_f_values_X)))'),
            ('rows_valid', 'implies(g_q > 0, len(result[1]) <= space_of(approximation_factor, len(old(X))))'),
            ('strata_x', 'implies(g_q > 0, all(result[1][offs(old(X), _f_values_X, g_q, j) + t] == '
                         'old(X)[where_idx(old(X), _f_values_X[j])[t]] for j in range(len(_f_values_X)) '
                         'for t in range(min2(g_q, len(where_idx(old(X), _f_values_X[j]))))))'),
            ('strata_y', 'implies(g_q > 0, all(result[0][offs(old(X), _f_values_X, g_q, j) + t] == '
                         'old(Y)[where_idx(old(X), _f_values_X[j])[t]] for j in range(len(_f_values_X)) '
                         'for t in range(min2(g_q, len(where_idx(old(X), _f_values_X[j]))))))'),
        ],
        loops={1: dict(index='k', inv=[
            ('offset', 'index_offset == offs(X, _f_values_X, unique_samples_per_val, k)'),
            ('room', 'index_offset + (len(_f_values_X) - k) * unique_samples_per_val <= final_space_size'),
            ('prefix', 'all(defined(final_index_array, p) and 0 <= final_index_array[p] '
                       'and final_index_array[p] < len(X) '
                       'for p in range(index_offset))'),
            ('blocks', 'all(final_index_array[offs(X, _f_values_X, unique_samples_per_val, j) + t] == '
                       'where_idx(X, _f_values_X[j])[t] for j in range(k) '
                       'for t in range(min2(unique_samples_per_val, len(where_idx(X, _f_values_X[j])))))'),
        ])},
    ),

    'mutual_info_estimator_numba': dict(
        params={'Y': 'int32[:]', 'X': 'int32[:]', 'approximation_factor': 'real', 'cardinality_correction': 'bool'},
        requires=[
            ('lens', 'len(X) == len(Y) and len(X) >= 1 and len(X) <= 10**6'),
            ('codes_x', 'all(0 <= X[i] and X[i] < 2**20 for i in range(len(X)))'),
            ('codes_y', 'all(0 <= Y[i] and Y[i] < 2**20 for i in range(len(Y)))'),
            ('ratio', '0 < approximation_factor and approximation_factor <= 1'),
        ],
        returns='real',
        lemmas=['cnt_bounds', 'condsum_noskip', 'condsum_bg_noskip', 'offs_mono'],
        call_ghosts={'compute_entropies': {'g_cv': 'g_cv', 'g_cc': 'g_cc'}, 'stratified_subsampling': {'g_q': 'g_q'}},
        ghost_out={'g_fv': 'int32[:]', 'g_fc': 'int32[:]', 'g_cv': 'int32[:]', 'g_cc': 'int32[:]', 'g_eff': 'bool',
                   'g_sx': 'int32[:]', 'g_sy': 'int32[:]'},
        ghost_bind={'g_fv': 'f_values', 'g_fc': 'f_value_counts', 'g_eff': 'cardinality_correction',
                    'g_sx': 'X', 'g_sy': 'Y'},
        ensures=[
            ('x_support', 'len(g_fv) == len(g_fc) and len(g_fv) >= 1 and '
                          'all(g_fv[k] < g_fv[k + 1] for k in range(len(g_fv) - 1)) and '
                          'all(g_fc[k] == cnt(old(X), g_fv[k], len(old(X))) and g_fc[k] > 0 for k in range(len(g_fv)))'),
            ('y_support', 'len(g_cv) == len(g_cc) and len(g_cv) >= 1 and '
                          'all(g_cv[k] < g_cv[k + 1] for k in range(len(g_cv) - 1)) and '
                          'all(g_cc[k] == cnt(g_sy, g_cv[k], len(g_sy)) and g_cc[k] > 0 for k in range(len(g_cv)))'),
            ('selfpair', 'g_eff == (old(cardinality_correction) and not all(old(X)[i] == old(Y)[i] '
                         'for i in range(len(old(X)))))'),
            ('unsampled', 'implies(approximation_factor == 1, same_seq(g_sx, old(X)) and same_seq(g_sy, old(Y)))'),
            ('plugin_mi', 'implies(approximation_factor == 1 and not g_eff, result == '
                          'entsum(g_cc, len(old(X)), len(g_cv)) '
                          '- condsum_ns(old(X), old(Y), g_fv, g_fc, len(old(X)), g_cv, len(g_fv)))'),
            ('corrected', 'implies(approximation_factor == 1 and g_eff, result == '
                          'condsum_bg_ns(old(X), old(Y), g_fv, g_fc, len(old(X)), g_cv, len(g_fv)) '
                          '- condsum_ns(old(X), old(Y), g_fv, g_fc, len(old(X)), g_cv, len(g_fv)))'),
            ('sampled', 'implies(approximation_factor < 1, result == approximation_factor * ite(g_eff, '
                        'condsum_bg(g_sx, g_sy, g_fv, g_fc, len(old(X)), g_cv, len(g_fv)) '
                        '- condsum(g_sx, g_sy, g_fv, g_fc, len(old(X)), g_cv, len(g_fv)), '
                        'entsum(g_cc, len(old(X)), len(g_cv)) '
                        '- condsum(g_sx, g_sy, g_fv, g_fc, len(old(X)), g_cv, len(g_fv))))'),
        ],
    ),
}
