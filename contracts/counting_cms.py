"""Contracts for outrank/algorithms/sketches/counting_cms.py (C15)."""
MODULE = 'outrank/algorithms/sketches/counting_cms.py'

SKETCH = {'__class__': 'CountMinSketch', 'depth': 'int', 'width': 'int', 'hash_seeds': 'uint32[:]', 'M': 'int32[:,:]'}
WF = [('shape', 'sketch.depth >= 1 and sketch.width >= 1 and len(sketch.hash_seeds) == sketch.depth'),
      ('matrix', 'rows(sketch.M) == sketch.depth and cols(sketch.M) == sketch.width')]
INV = [
    ('nonneg', 'all(sketch.M[r][c] >= 0 for r in range(sketch.depth) for c in range(sketch.width))'),
    ('rowsum', 'all(sumI(sketch.M[r], sketch.width) == total for r in range(sketch.depth))'),
    ('lower', 'forall(lambda y: all(sketch.M[r][cms_h(y, sketch.hash_seeds[r], sketch.width)] >= weight[y] '
              'for r in range(sketch.depth)), "Item")'),
    ('weights', 'forall(lambda y: weight[y] >= 0, "Item") and total >= 0'),
]

CONTRACTS = {
    'cms_hash': dict(
        params={'x': 'Item', 'seed': 'int', 'width': 'int'},
        requires=[('width_pos', 'width >= 1'), ('seed', 'seed >= 0')],
        returns='int',
        pure='cms_h(x, seed, width)',
        ensures=[('range', '0 <= result and result < width')],
    ),
    'CountMinSketch._add': dict(
        params={'M': 'int32[:,:]', 'x': 'Item', 'depth': 'int', 'width': 'int', 'hash_seeds': 'uint32[:]', 'delta': 'int'},
        modifies=['param:M'],
        requires=[('shape', 'depth >= 0 and width >= 1 and rows(M) == depth and cols(M) == width and len(hash_seeds) >= depth'),
                  ('delta', 'delta >= 0'),
                  ('no_overflow', 'all(M[r][c] + delta < 2**31 and M[r][c] >= 0 for r in range(depth) for c in range(width))')],
        ensures=[
            ('cells', 'all(M[r][c] == old(M)[r][c] + ite(c == cms_h(x, hash_seeds[r], width), delta, 0) '
                      'for r in range(depth) for c in range(width))'),
            ('shape', 'rows(M) == depth and cols(M) == width'),
        ],
        loops={1: dict(index='i', inv=[
            ('done', 'all(M[r][c] == pre(M)[r][c] + ite(c == cms_h(x, hash_seeds[r], width), delta, 0) '
                     'for r in range(i) for c in range(width))'),
            ('todo', 'all(M[r][c] == pre(M)[r][c] for r in range(i, depth) for c in range(width))'),
        ])},
    ),
    'CountMinSketch.query': dict(
        params={'self': SKETCH, 'x': 'Item'},
        requires=[('shape', 'self.depth >= 1 and self.width >= 1 and len(self.hash_seeds) == self.depth and '
                            'rows(self.M) == self.depth and cols(self.M) == self.width')],
        returns='int',
        ensures=[
            ('lower_bound_of_rows', 'all(result <= self.M[r][cms_h(x, self.hash_seeds[r], self.width)] for r in range(self.depth))'),
            ('attained', 'any(result == self.M[r][cms_h(x, self.hash_seeds[r], self.width)] for r in range(self.depth))'),
        ],
    ),
    # ---- the public update operations, against the class invariant over a ghost history (weight of every item, total weight)
    'CountMinSketch.add': dict(
        params={'self': SKETCH, 'x': 'Item', 'delta': 'int', 'weight': 'counter[Item]', 'total': 'int'},
        modifies=['param:self.M'],
        requires=[(l, e.replace('sketch.', 'self.')) for l, e in WF + INV] + [('delta', 'delta >= 0'), ('no_overflow', 'total + delta < 2**31')],
        lemmas=[],
        lemma_map={'rowsum': ['sum_pointupdate'], 'no_overflow': ['sum_ge_elem']},
        ensures=[
            ('nonneg', 'all(self.M[r][c] >= 0 for r in range(self.depth) for c in range(self.width))'),
            ('rowsum', 'all(sumI(self.M[r], self.width) == total + delta for r in range(self.depth))'),
            ('lower', 'forall(lambda y: all(self.M[r][cms_h(y, self.hash_seeds[r], self.width)] >= '
                      'weight[y] + ite(y == x, delta, 0) for r in range(self.depth)), "Item")'),
            ('shape', 'rows(self.M) == self.depth and cols(self.M) == self.width'),
        ],
    ),
    'CountMinSketch.batch_add': dict(
        params={'self': SKETCH, 'lst': 'list[Item]', 'delta': 'int', 'weight': 'counter[Item]', 'total': 'int'},
        modifies=['param:self.M'],
        requires=[(l, e.replace('sketch.', 'self.')) for l, e in WF + INV] + [('delta', 'delta >= 0'), ('no_overflow', 'total + wtot(delta, len(lst)) < 2**31')],
        lemmas=['wtot_monotone', 'wcnt_opaque_Item_nonneg'],
        call_ghost_args={'CountMinSketch.add': {'weight': 'mkcounter(lambda y: weight[y] + wcnt(lst, y, delta, k), "Item")', 'total': 'total + wtot(delta, k)'}},
        ensures=[
            ('nonneg', 'all(self.M[r][c] >= 0 for r in range(self.depth) for c in range(self.width))'),
            ('rowsum', 'all(sumI(self.M[r], self.width) == total + wtot(delta, len(lst)) for r in range(self.depth))'),
            ('lower', 'forall(lambda y: all(self.M[r][cms_h(y, self.hash_seeds[r], self.width)] >= '
                      'weight[y] + wcnt(lst, y, delta, len(lst)) for r in range(self.depth)), "Item")'),
        ],
        loops={1: dict(index='k', inv=[
            ('shape', 'rows(self.M) == self.depth and cols(self.M) == self.width'),
            ('nonneg', 'all(self.M[r][c] >= 0 for r in range(self.depth) for c in range(self.width))'),
            ('rowsum', 'all(sumI(self.M[r], self.width) == total + wtot(delta, k) for r in range(self.depth))'),
            ('lower', 'forall(lambda y: all(self.M[r][cms_h(y, self.hash_seeds[r], self.width)] >= '
                      'weight[y] + wcnt(lst, y, delta, k) for r in range(self.depth)), "Item")'),
        ])},
    ),
    # ---- class invariant of the sketch as lemma functions over the two contracts above (ghost: weight, total)
    'lemma_cms_add_preserves': dict(
        module='/verif/contracts/lemma_src/c15_lemmas.py', qualname='cms_add_preserves',
        params={'sketch': SKETCH, 'x': 'Item', 'delta': 'int', 'weight': 'counter[Item]', 'total': 'int'},
        requires=WF + INV + [('delta', 'delta >= 0'), ('no_overflow', 'total + delta < 2**31')],
        lemmas=[],
        lemma_map={'rowsum': ['sum_pointupdate'], 'no_overflow': ['sum_ge_elem']},
        ensures=[
            ('nonneg', 'all(sketch.M[r][c] >= 0 for r in range(sketch.depth) for c in range(sketch.width))'),
            ('rowsum', 'all(sumI(sketch.M[r], sketch.width) == total + delta for r in range(sketch.depth))'),
            ('lower', 'forall(lambda y: all(sketch.M[r][cms_h(y, sketch.hash_seeds[r], sketch.width)] >= '
                      'weight[y] + ite(y == x, delta, 0) for r in range(sketch.depth)), "Item")'),
        ],
    ),
    'lemma_cms_query_bounds': dict(
        module='/verif/contracts/lemma_src/c15_lemmas.py', qualname='cms_query_bounds',
        params={'sketch': SKETCH, 'x': 'Item', 'weight': 'counter[Item]', 'total': 'int'},
        requires=WF + INV,
        returns='int',
        lemmas=['sum_ge_elem'],
        ensures=[('never_below_true_weight', 'result >= weight[x]'),
                 ('never_above_total', 'result <= total')],
    ),
}
