"""Contracts for outrank/algorithms/sketches/counting_ultiloglog.py (C14)."""
MODULE = 'outrank/algorithms/sketches/counting_ultiloglog.py'

SELF = {'__class__': 'HyperLogLogWCache', 'p': 'const:19', 'm': 'const:524288', 'width': 'const:45',
        'warmup_size': 'const:262144', 'warmup_set': 'set[str]', 'hll_flag': 'bool', 'M': 'float64[:]'}
SHAPE = [('registers', 'len(self.M) == 524288')]
# ghost `seen`: the set of values ever added.
EXACT = ('implies(not self.hll_flag, forall(lambda x: (x in self.warmup_set) == (x in seen), "str") and '
         'len(self.warmup_set) == len(seen) and len(seen) <= 262144)')
REGS = ('implies(self.hll_flag, forall(lambda x: implies(x in seen, self.M[hll_bucket(x)] >= hll_rho(x)), "str"))')

_BASIS = 'ceil(524288 * log(npdivide(524288, cntz(self.M, 524288))))'

CONTRACTS = {
    'HyperLogLogWCache._hasher_update': dict(
        params={'self': SELF, 'value': 'str'},
        modifies=['param:self.M', 'param:self.hasher'],
        requires=SHAPE,
        ensures=[
            ('bucket_in_range', '0 <= hll_bucket(value) and hll_bucket(value) < 524288 and hll_rho(value) >= 32'),
            ('register', 'self.M[hll_bucket(value)] == ite(old(self.M)[hll_bucket(value)] >= hll_rho(value), '
                         'old(self.M)[hll_bucket(value)], hll_rho(value))'),
            ('others', 'all(implies(j != hll_bucket(value), self.M[j] == old(self.M)[j]) for j in range(524288))'),
            ('shape', 'len(self.M) == 524288'),
        ],
    ),
    'HyperLogLogWCache.add': dict(
        params={'self': SELF, 'value': 'str', 'seen': 'set[str]'},
        modifies=['param:self'],
        requires=[('exact_phase', EXACT), ('register_phase', REGS), ('seen_card', 'len(seen) >= 0'),
                  ('registers', 'implies(self.hll_flag, len(self.M) == 524288)')],
        ensures=[
            # E1: still exact while the number of distinct values stays within the warm-up capacity
            ('exact_while_it_fits', 'implies(not old(self.hll_flag) and ((value in seen) or len(seen) < 262144), '
                                    'not self.hll_flag and forall(lambda x: (x in self.warmup_set) == ((x in seen) or x == value), "str") '
                                    'and len(self.warmup_set) == len(seen) + ite(value in seen, 0, 1))'),
            # E2: duplicate-blind in the exact phase
            ('duplicate_blind_exact', 'implies(not old(self.hll_flag) and (value in seen), not self.hll_flag and '
                                      'len(self.warmup_set) == len(old(self.warmup_set)) and '
                                      'forall(lambda x: (x in self.warmup_set) == (x in old(self.warmup_set)), "str"))'),
            # duplicate-blind in the register phase: re-adding a seen value leaves every register unchanged
            ('duplicate_blind_registers', 'implies(old(self.hll_flag) and (value in seen), self.hll_flag and '
                                          'all(self.M[j] == old(self.M)[j] for j in range(524288)))'),
            # the switch: every value seen so far, including the one that triggers it, is in the registers
            ('switch_registers_everything', 'implies(self.hll_flag, len(self.M) == 524288 and forall(lambda x: implies((x in seen) or x == value, '
                                            'self.M[hll_bucket(x)] >= hll_rho(x)), "str"))'),
            ('switch_only_when_full', 'implies(not old(self.hll_flag) and self.hll_flag, not (value in seen) and len(seen) == 262144)'),
            ('never_back', 'implies(old(self.hll_flag), self.hll_flag)'),
        ],
        loops={1: dict(index='k', inv=[
            ('shape', 'len(self.M) == 524288'),
            ('registered', 'all(self.M[hll_bucket(k_seq[i])] >= hll_rho(k_seq[i]) for i in range(k))'),
        ])},
    ),
    'HyperLogLogWCache.__len__': dict(
        params={'self': SELF},
        requires=[('registers', 'implies(self.hll_flag, len(self.M) == 524288)'), ('card', 'len(self.warmup_set) >= 0')],
        returns='int',
        ensures=[
            ('exact_phase_is_set_size', 'implies(not self.hll_flag, result == len(self.warmup_set))'),
            # linear counting from the number of empty registers only: ceil(m * ln(m / z)) - 1  (2^19 if z == 0)
            ('register_phase_is_linear_counting_of_empty_registers',
             'implies(self.hll_flag, result == ite(' + _BASIS + ' != inf(), int(' + _BASIS + ') - 1, 2**19))'),
        ],
    ),
}
