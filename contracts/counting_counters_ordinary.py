"""Contracts for outrank/algorithms/sketches/counting_counters_ordinary.py (C15, C13)."""
MODULE = 'outrank/algorithms/sketches/counting_counters_ordinary.py'

SELF = {'__class__': 'PrimitiveConstrainedCounter', 'max_bound_thr': 'int', 'default_counter': 'counter[Val]'}

# ghost history: true_count[v] = number of add(v) calls so far, distinct_seen = number of distinct values added,
# refused = some add() was dropped.  Class invariant INV over (self, ghosts); `add` re-establishes it for the
# updated ghosts  true_count' = true_count + [val],  distinct_seen' = distinct_seen + (true_count[val] == 0),
# refused' = refused or not (len(counter) < bound).
INV = [
    ('bounded', 'len(self.default_counter) <= ite(self.max_bound_thr > 0, self.max_bound_thr, 0)'),
    ('never_over', 'forall(lambda v: self.default_counter[v] <= true_count[v], "Val")'),
    ('keys_positive', 'forall(lambda v: (v in self.default_counter) == (self.default_counter[v] > 0), "Val")'),
    ('exact_until_refusal', 'implies(not refused, forall(lambda v: self.default_counter[v] == true_count[v], "Val") '
                            'and len(self.default_counter) == distinct_seen)'),
    ('refusal_means_full', 'implies(refused, distinct_seen >= self.max_bound_thr)'),
    ('ghost_nonneg', 'forall(lambda v: true_count[v] >= 0, "Val") and distinct_seen >= 0'),
]


def _post(expr):
    """INV clause re-stated for the post-state ghosts."""
    return (expr.replace('true_count[v]', '(true_count[v] + ite(v == val, 1, 0))')
            .replace('distinct_seen', '(distinct_seen + ite(true_count[val] == 0, 1, 0))')
            .replace('not refused', 'not (refused or not (len(old(self.default_counter)) < self.max_bound_thr))')
            .replace('implies(refused,', 'implies(refused or not (len(old(self.default_counter)) < self.max_bound_thr),'))


CONTRACTS = {
    'PrimitiveConstrainedCounter.add': dict(
        params={'self': SELF, 'val': 'Val', 'true_count': 'counter[Val]', 'distinct_seen': 'int', 'refused': 'bool'},
        modifies=['param:self'],
        requires=INV,
        ensures=[(lab, _post(e)) for lab, e in INV] + [
            ('exact_while_below_bound',
             'implies(distinct_seen + ite(true_count[val] == 0, 1, 0) < self.max_bound_thr, '
             'forall(lambda v: self.default_counter[v] == true_count[v] + ite(v == val, 1, 0), "Val"))'),
            ('bound_unchanged', 'self.max_bound_thr == old(self.max_bound_thr)'),
        ],
    ),
}
