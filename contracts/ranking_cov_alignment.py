"""Contract for outrank/algorithms/feature_ranking/ranking_cov_alignment.py (C05)."""
MODULE = 'outrank/algorithms/feature_ranking/ranking_cov_alignment.py'
_C2 = 'cnt2(array1, array2, p[0], p[1], len(array1))'

CONTRACTS = {
    'max_pair_coverage': dict(
        params={'array1': 'int64[:]', 'array2': 'int64[:]'},
        requires=[('lens', 'len(array1) == len(array2) and len(array1) >= 1')],
        returns='real',
        local_kinds={'counts': 'counter[tuple[int,int]]'},
        function_symbol='fn_max_pair_coverage',
        lemmas=['cnt2_bounds'],
        ensures=[
            # the largest joint-value frequency: max over value pairs of (#rows with that pair) / n
            ('no_pair_is_more_frequent', f'forall(lambda p: {_C2} / len(array1) <= result, "tuple[int,int]")'),
            ('some_pair_attains_it', f'exists(lambda p: {_C2} / len(array1) == result, "tuple[int,int]")'),
        ],
        loops={1: dict(index='k', inv=[
            ('counts', 'forall(lambda p: counts[p] == cnt2(array1, array2, p[0], p[1], k), "tuple[int,int]")'),
            ('keys', 'forall(lambda p: (p in counts) == (counts[p] > 0), "tuple[int,int]")'),
            ('size', 'implies(k >= 1, len(counts) >= 1) and len(counts) >= 0'),
        ])},
    ),
}
