"""Contracts for outrank/core_ranking.py (C06-C08, C10, C11, C13)."""
MODULE = 'outrank/core_ranking.py'

ARGS_CAP = {'__class__': 'args', 'combination_number_upper_bound': 'int'}
CL = ['cnt_opaque_Comb_bounds', 'cnt_opaque_Comb_absent', 'cnt_opaque_Comb_present', 'cnt_opaque_Comb_distinct']

ARGS_COMB = {'__class__': 'args', 'heuristic': 'str', 'combination_number_upper_bound': 'int', 'label_column': 'str',
             'target_ranking_only': 'str'}
_IN = lambda a, b: f'any(result[m][0] == {a} and result[m][1] == {b} for m in range(len(result)))'
_EITHER = lambda a, b: f'({_IN(a, b)} or {_IN(b, a)})'
_COL = lambda x: f'({x} in all_columns)'
_REL = lambda x: f'(" AND_REL " in {x})'

CONTRACTS = {
    'get_combinations_from_columns': dict(
        strings='opaque',
        params={'all_columns': 'list[str]', 'args': ARGS_COMB},
        modifies=['param:args.combination_number_upper_bound'],
        requires=[
            ('distinct_names', 'all(all_columns[i] != all_columns[j] for j in range(len(all_columns)) for i in range(j))'),
            ('label_present', 'args.label_column in all_columns'),
            ('cap', 'args.combination_number_upper_bound >= 0'),
        ],
        returns='list[tuple[str,str]]',
        summarize={
            'rel_columns =': dict(var='rel_columns', facts=[
                ('sound', 'all((" AND_REL " in rel_columns[k]) and (rel_columns[k] in all_columns) for k in range(len(rel_columns)))'),
                ('complete', 'all(implies(" AND_REL " in all_columns[i], all_columns[i] in rel_columns) for i in range(len(all_columns)))'),
            ]),
            'non_rel_columns =': dict(var='non_rel_columns', facts=[
                ('sound', 'all(not (" AND_REL " in non_rel_columns[k]) and (non_rel_columns[k] in all_columns) '
                          'for k in range(len(non_rel_columns)))'),
                ('complete', 'all(implies(not (" AND_REL " in all_columns[i]), all_columns[i] in non_rel_columns) '
                             'for i in range(len(all_columns)))'),
            ]),
            'combinations = list(itertools.combinations_with_replacement(non_rel_columns': dict(var='combinations', facts=[
                ('sound', 'all((combinations[m][0] in non_rel_columns) and (combinations[m][1] in non_rel_columns) '
                          'for m in range(len(combinations)))'),
                ('complete', 'all(any(combinations[m][0] == non_rel_columns[p] and combinations[m][1] == non_rel_columns[q] '
                             'for m in range(len(combinations))) or any(combinations[m][0] == non_rel_columns[q] and '
                             'combinations[m][1] == non_rel_columns[p] for m in range(len(combinations))) '
                             'for p in range(len(non_rel_columns)) for q in range(len(non_rel_columns)))'),
            ]),
            'combinations += [(column, args.label_column)': dict(var='combinations', facts=[
                ('sound', 'all(((combinations[m][0] in non_rel_columns) and (combinations[m][1] in non_rel_columns)) or '
                          '((combinations[m][0] in rel_columns) and combinations[m][1] == args.label_column) '
                          'for m in range(len(combinations)))'),
                ('complete', 'all(any(combinations[m][0] == non_rel_columns[p] and combinations[m][1] == non_rel_columns[q] '
                             'for m in range(len(combinations))) or any(combinations[m][0] == non_rel_columns[q] and '
                             'combinations[m][1] == non_rel_columns[p] for m in range(len(combinations))) '
                             'for p in range(len(non_rel_columns)) for q in range(len(non_rel_columns)))'),
                ('relations', 'all(any(combinations[m][0] == rel_columns[k] and combinations[m][1] == args.label_column '
                              'for m in range(len(combinations))) for k in range(len(rel_columns)))'),
            ]),
        },
        ensures=[
            # every row mentions only columns of the batch's feature space
            ('names_in_space', f'all({_COL("result[m][0]")} and {_COL("result[m][1]")} for m in range(len(result)))'),
            # target-only, non-3mr: exactly every feature paired with the label (label-label included)
            ('target_only_covers', 'implies(not ("3mr" in args.heuristic) and args.target_ranking_only == "True", '
                                   f'all({_EITHER("all_columns[i]", "args.label_column")} for i in range(len(all_columns))))'),
            ('target_only_exact', 'implies(not ("3mr" in args.heuristic) and args.target_ranking_only == "True", '
                                  'all(result[m][0] == args.label_column or result[m][1] == args.label_column '
                                  'for m in range(len(result))))'),
            # pairwise, non-3mr: every unordered pair of columns, each column with itself included
            ('pairwise_covers', 'implies(not ("3mr" in args.heuristic) and args.target_ranking_only != "True", '
                                f'all({_EITHER("all_columns[i]", "all_columns[j]")} for i in range(len(all_columns)) '
                                'for j in range(len(all_columns))))'),
            # 3mr: every unordered pair of non-relation columns (with itself), relation columns with the label only
            ('mr3_covers', 'implies("3mr" in args.heuristic, '
                           f'all(implies(not {_REL("all_columns[i]")} and not {_REL("all_columns[j]")}, '
                           f'{_EITHER("all_columns[i]", "all_columns[j]")}) for i in range(len(all_columns)) '
                           'for j in range(len(all_columns))))'),
            ('mr3_relations_with_label', 'implies("3mr" in args.heuristic, '
                                         f'all(implies({_REL("all_columns[i]")}, {_IN("all_columns[i]", "args.label_column")}) '
                                         'for i in range(len(all_columns))))'),
            ('mr3_relations_label_only', 'implies("3mr" in args.heuristic, '
                                         f'all(implies({_REL("result[m][0]")} or {_REL("result[m][1]")}, '
                                         f'{_REL("result[m][0]")} and result[m][1] == args.label_column) '
                                         'for m in range(len(result))))'),
            ('mr3_cap', 'implies("3mr" in old(args.heuristic), args.combination_number_upper_bound == '
                        'min2(old(args.combination_number_upper_bound), 10**4)) and '
                        'implies(not ("3mr" in old(args.heuristic)), args.combination_number_upper_bound == '
                        'old(args.combination_number_upper_bound))'),
            ('args_frame', 'args.heuristic == old(args.heuristic) and args.label_column == old(args.label_column) and '
                           'args.target_ranking_only == old(args.target_ranking_only)'),
        ],
    ),
    'prior_combinations_sample': dict(
        generics={'Comb': 'combinations'},
        params={'combinations': 'list[Comb]', 'args': ARGS_CAP},
        globals={'GLOBAL_PRIOR_COMB_COUNTS': 'counter[Comb]'},
        modifies=['GLOBAL_PRIOR_COMB_COUNTS'],
        requires=[('cap_nonneg', 'args.combination_number_upper_bound >= 0')],
        returns='list[Comb]',
        lemmas=CL,
        ensures=[
            ('len', 'len(result) == min2(args.combination_number_upper_bound, len(combinations))'),
            ('candidates', 'all(result[i] in combinations for i in range(len(result)))'),
            ('least_first', 'all(implies(not (combinations[j] in result), '
                            'old(GLOBAL_PRIOR_COMB_COUNTS)[result[i]] <= old(GLOBAL_PRIOR_COMB_COUNTS)[combinations[j]]) '
                            'for i in range(len(result)) for j in range(len(combinations)))'),
            ('counts', 'forall(lambda c: GLOBAL_PRIOR_COMB_COUNTS[c] == old(GLOBAL_PRIOR_COMB_COUNTS)[c] '
                       '+ cnt(result, c, len(result)), "Comb")'),
            ('distinct', 'implies(all(combinations[i] != combinations[j] for j in range(len(combinations)) for i in range(j)), '
                         'all(result[i] != result[j] for j in range(len(result)) for i in range(j)))'),
            ('frame', 'forall(lambda c: implies(not (c in combinations), '
                      'GLOBAL_PRIOR_COMB_COUNTS[c] == old(GLOBAL_PRIOR_COMB_COUNTS)[c]), "Comb")'),
        ],
        loops={
            1: dict(index='k', inv=[
                ('view', 'forall(lambda c: GLOBAL_PRIOR_COMB_COUNTS[c] == old(GLOBAL_PRIOR_COMB_COUNTS)[c], "Comb")'),
                ('kept', 'forall(lambda c: implies(c in old(GLOBAL_PRIOR_COMB_COUNTS), c in GLOBAL_PRIOR_COMB_COUNTS), "Comb")'),
                ('added', 'all(k_seq[i] in GLOBAL_PRIOR_COMB_COUNTS for i in range(k))'),
            ]),
            2: dict(index='m', inv=[
                ('incr', 'forall(lambda c: GLOBAL_PRIOR_COMB_COUNTS[c] == old(GLOBAL_PRIOR_COMB_COUNTS)[c] '
                         '+ cnt(tmp, c, m), "Comb")'),
            ]),
        },
    ),

    # ---- history part of C07: one call preserves fairness (induction step over the sequence of batches)
    'lemma_fair_step': dict(
        module='/verif/contracts/lemma_src/c07_lemmas.py', qualname='fair_step',
        params={'L': 'list[Comb]', 'args': ARGS_CAP},
        globals={'GLOBAL_PRIOR_COMB_COUNTS': 'counter[Comb]'},
        requires=[
            ('cap_nonneg', 'args.combination_number_upper_bound >= 0'),
            ('distinct', 'all(L[i] != L[j] for j in range(len(L)) for i in range(j))'),
            ('fair', 'all(GLOBAL_PRIOR_COMB_COUNTS[L[i]] - GLOBAL_PRIOR_COMB_COUNTS[L[j]] <= 1 '
                     'for i in range(len(L)) for j in range(len(L)))'),
        ],
        returns='list[Comb]',
        lemmas=CL,
        ensures=[
            ('fair', 'all(GLOBAL_PRIOR_COMB_COUNTS[L[i]] - GLOBAL_PRIOR_COMB_COUNTS[L[j]] <= 1 '
                     'for i in range(len(L)) for j in range(len(L)))'),
            ('exactly_cap_distinct', 'len(result) == min2(args.combination_number_upper_bound, len(L)) and '
                                     'all(result[i] != result[j] for j in range(len(result)) for i in range(j))'),
            ('count_is_selection', 'forall(lambda c: GLOBAL_PRIOR_COMB_COUNTS[c] == old(GLOBAL_PRIOR_COMB_COUNTS)[c] '
                                   '+ ite(c in result, 1, 0), "Comb")'),
        ],
    ),
    'lemma_disjoint_call_keeps_fair': dict(
        module='/verif/contracts/lemma_src/c07_lemmas.py', qualname='disjoint_call_keeps_fair',
        params={'L': 'list[Comb]', 'other': 'list[Comb]', 'args': ARGS_CAP},
        globals={'GLOBAL_PRIOR_COMB_COUNTS': 'counter[Comb]'},
        requires=[
            ('cap_nonneg', 'args.combination_number_upper_bound >= 0'),
            ('disjoint', 'all(not (L[i] in other) for i in range(len(L)))'),
            ('fair', 'all(GLOBAL_PRIOR_COMB_COUNTS[L[i]] - GLOBAL_PRIOR_COMB_COUNTS[L[j]] <= 1 '
                     'for i in range(len(L)) for j in range(len(L)))'),
        ],
        returns='list[Comb]',
        lemmas=CL,
        ensures=[
            ('fair', 'all(GLOBAL_PRIOR_COMB_COUNTS[L[i]] - GLOBAL_PRIOR_COMB_COUNTS[L[j]] <= 1 '
                     'for i in range(len(L)) for j in range(len(L)))'),
        ],
    ),

    'mixed_rank_graph': dict(
        strings='opaque',
        params={'input_dataframe': {'__class__': 'DataFrame', 'columns': 'list[str]', 'nrows': 'int', 'data': 'FrameData',
                                    'cells': 'const:"str"'},
                'args': dict(ARGS_COMB, reference_model_JSON='str', mi_stratified_sampling_ratio='real'),
                'cpu_pool': {'__class__': 'Pool'}, 'pbar': {'__class__': 'pbar'}},
        globals={'GLOBAL_PRIOR_COMB_COUNTS': 'counter[tuple[str,str]]'},
        modifies=['GLOBAL_PRIOR_COMB_COUNTS', 'param:args.combination_number_upper_bound'],
        constructors={'BatchRankingSummary': ['triplet_scores', 'step_times']},
        local_kinds={'triplets': 'list[tuple[str,str,real]]', 'final_triplets': 'list[tuple[str,str,real]]',
                     'final_constant_imp': 'list[tuple[str,str,real]]', 'out_time_struct': 'dict[str,real]'},
        abstract={
            "tmp_df = input_dataframe.copy().astype('category')": dict(var='tmp_df', kind={'__class__': 'DataFrame', 'columns': 'list[str]', 'nrows': 'int', 'data': 'FrameData', 'cells': 'const:"str"'}, facts=[]),
            'tmp_df = pd.DataFrame({k: tmp_df[k].cat.codes': dict(
                var='tmp_df',
                kind={'__class__': 'DataFrame', 'columns': 'list[str]', 'nrows': 'int', 'data': 'FrameData', 'cells': 'const:"int"'},
                facts=[('columns', 'same_seq(tmp_df.columns, input_dataframe.columns)'),
                       ('rows', 'tmp_df.nrows == input_dataframe.nrows'),
                       # astype('category').cat.codes: an injective coding of each column's values, 0 <= code < #categories
                       ('coding', 'forall(lambda c: all((tmp_df[c].values[i] == tmp_df[c].values[j]) == '
                                  '(input_dataframe[c].values[i] == input_dataframe[c].values[j]) '
                                  'for i in range(tmp_df.nrows) for j in range(tmp_df.nrows)), "str")'),
                       ('codes', 'forall(lambda c: all(0 <= tmp_df[c].values[i] and tmp_df[c].values[i] < 2**20 '
                                 'for i in range(tmp_df.nrows)), "str")')]),
        },
        requires=[
            ('distinct_names', 'all(input_dataframe.columns[i] != input_dataframe.columns[j] '
                               'for j in range(len(input_dataframe.columns)) for i in range(j))'),
            ('label_present', 'args.label_column in input_dataframe.columns'),
            ('cap', 'args.combination_number_upper_bound >= 0'),
            ('no_reference_model', 'args.reference_model_JSON == ""'),
            ('rows', 'input_dataframe.nrows >= 1 and input_dataframe.nrows <= 10**6'),
            ('ratio', '0 < args.mi_stratified_sampling_ratio and args.mi_stratified_sampling_ratio <= 1'),
        ],
        returns={'__class__': 'BatchRankingSummary'},
        ghost_out={'g_eval': 'list[tuple[str,str]]', 'g_coded': {'__class__': 'DataFrame', 'columns': 'list[str]', 'nrows': 'int', 'data': 'FrameData', 'cells': 'const:"int"'}},
        ghost_bind={'g_eval': 'combinations', 'g_coded': 'tmp_df'},
        ensures=[
            ('names_in_space', 'all((g_eval[t][0] in input_dataframe.columns) and (g_eval[t][1] in input_dataframe.columns) '
                               'for t in range(len(g_eval)))'),
            ('capped', 'len(g_eval) <= args.combination_number_upper_bound'),
            ('constant_once', 'implies(args.heuristic == "Constant", len(result.triplet_scores) == len(g_eval) and '
                              'all(result.triplet_scores[t][0] == g_eval[t][0] and result.triplet_scores[t][1] == g_eval[t][1] '
                              'and result.triplet_scores[t][2] == 0 for t in range(len(g_eval))))'),
            ('both_orientations', 'implies(args.heuristic != "Constant", len(result.triplet_scores) == 2 * len(g_eval) and '
                                  'all(result.triplet_scores[2 * t][0] == g_eval[t][1] and result.triplet_scores[2 * t][1] == g_eval[t][0] '
                                  'and result.triplet_scores[2 * t + 1][0] == g_eval[t][0] and result.triplet_scores[2 * t + 1][1] == g_eval[t][1] '
                                  'and result.triplet_scores[2 * t][2] == result.triplet_scores[2 * t + 1][2] for t in range(len(g_eval))))'),
            ('score_is_selected_heuristic', 'implies(args.heuristic != "Constant", all(result.triplet_scores[2 * t + 1][2] == '
                                            'pair_score(g_eval[t][0], g_eval[t][1], g_coded, args) for t in range(len(g_eval))))'),
        ],
        loops={
            1: dict(index='k1', inv=[
                ('rows', 'len(final_constant_imp) == k1 and all(final_constant_imp[t][0] == combinations[t][0] and '
                         'final_constant_imp[t][1] == combinations[t][1] and final_constant_imp[t][2] == 0 for t in range(k1))'),
            ]),
            2: dict(inv=[]),
            3: dict(index='k3', inv=[
                ('mirrored', 'len(final_triplets) == 2 * k3 and all('
                             'final_triplets[2 * t][0] == k3_seq[t][1] and final_triplets[2 * t][1] == k3_seq[t][0] and '
                             'final_triplets[2 * t][2] == k3_seq[t][2] and final_triplets[2 * t + 1][0] == k3_seq[t][0] and '
                             'final_triplets[2 * t + 1][1] == k3_seq[t][1] and final_triplets[2 * t + 1][2] == k3_seq[t][2] '
                             'for t in range(k3))'),
                ('alias', 'implies(k3 >= 1, same_seq(triplets, final_triplets)) and implies(k3 == 0, same_seq(triplets, k3_seq))'),
            ]),
        },
    ),

    # ---------------------------------------------------------------- C13: rare-value store
    'compute_value_counts': dict(
        strings='opaque',
        params={'input_dataframe': {'__class__': 'DataFrame', 'columns': 'list[str]', 'nrows': 'int', 'data': 'FrameData', 'cells': 'const:"str"'},
                'args': {'__class__': 'args', 'rare_value_count_upper_bound': 'int'},
                'total': 'counter[tuple[str,str]]'},
        globals={'GLOBAL_RARE_VALUE_STORAGE': 'counter[tuple[str,str]]', 'IGNORED_VALUES': 'set[tuple[str,str]]'},
        modifies=['GLOBAL_RARE_VALUE_STORAGE', 'IGNORED_VALUES'],
        local_kinds={'keys_to_remove': 'list[tuple[str,str]]'},
        lemmas=['cnt_pstr_bounds'],
        requires=[
            ('distinct_columns', 'all(input_dataframe.columns[i] != input_dataframe.columns[j] for j in range(len(input_dataframe.columns)) for i in range(j))'),
            ('rows', 'input_dataframe.nrows >= 0'), ('threshold', 'args.rare_value_count_upper_bound >= 0'),
            # class invariant over the ghost history `total` (occurrences of each (column, value) in all rows consumed so far)
            ('retired_iff_above_threshold', 'forall(lambda k: (k in IGNORED_VALUES) == (total[k] > args.rare_value_count_upper_bound), "tuple[str,str]")'),
            ('store_exact_below_threshold', 'forall(lambda k: implies(not (k in IGNORED_VALUES), GLOBAL_RARE_VALUE_STORAGE[k] == total[k]), "tuple[str,str]")'),
            ('store_keys_positive', 'forall(lambda k: implies(k in GLOBAL_RARE_VALUE_STORAGE, GLOBAL_RARE_VALUE_STORAGE[k] >= 1), "tuple[str,str]")'),
            ('history', 'forall(lambda k: total[k] >= 0, "tuple[str,str]")'),
        ],
        ensures=[
            # the same invariant for total' = total + (occurrences in this batch): the state is a function of the multiset of rows
            ('retired_iff_above_threshold', 'forall(lambda k: (k in IGNORED_VALUES) == (total[k] + ite(k[0] in input_dataframe.columns, colcnt(input_dataframe, k[0], k[1]), 0) > args.rare_value_count_upper_bound), "tuple[str,str]")'),
            ('store_exact_below_threshold', 'forall(lambda k: implies(not (k in IGNORED_VALUES), GLOBAL_RARE_VALUE_STORAGE[k] == total[k] + ite(k[0] in input_dataframe.columns, colcnt(input_dataframe, k[0], k[1]), 0)), "tuple[str,str]")'),
            ('store_keys_positive', 'forall(lambda k: implies(k in GLOBAL_RARE_VALUE_STORAGE, GLOBAL_RARE_VALUE_STORAGE[k] >= 1), "tuple[str,str]")'),
        ],
        loops={
            1: dict(index='j', inv=[
                ('ignored_unchanged', 'forall(lambda k: (k in ignored_values) == (k in old(IGNORED_VALUES)), "tuple[str,str]")'),
                ('counted_columns', 'forall(lambda k: global_storage[k] == old(GLOBAL_RARE_VALUE_STORAGE)[k] + ite((not (k in ignored_values)) and '
                                    'any(input_dataframe.columns[c] == k[0] for c in range(j)), colcnt(input_dataframe, k[0], k[1]), 0), "tuple[str,str]")'),
                ('keys_positive', 'forall(lambda k: implies(k in global_storage, global_storage[k] >= 1), "tuple[str,str]")'),
            ]),
            2: dict(index='i', inv=[
                ('ignored_unchanged', 'forall(lambda k: (k in ignored_values) == (k in old(IGNORED_VALUES)), "tuple[str,str]")'),
                ('counted_cells', 'forall(lambda k: global_storage[k] == old(GLOBAL_RARE_VALUE_STORAGE)[k] + ite(not (k in ignored_values), '
                                  'ite(any(input_dataframe.columns[c] == k[0] for c in range(j)), colcnt(input_dataframe, k[0], k[1]), 0) + '
                                  'ite(k[0] == column, cnt(main_values, k[1], i), 0), 0), "tuple[str,str]")'),
                ('keys_positive', 'forall(lambda k: implies(k in global_storage, global_storage[k] >= 1), "tuple[str,str]")'),
            ]),
            3: dict(index='m', inv=[
                ('store_unchanged', 'forall(lambda k: global_storage[k] == pre(global_storage)[k] and (k in global_storage) == (k in pre(global_storage)), "tuple[str,str]")'),
                ('retire', 'forall(lambda k: (k in ignored_values) == ((k in pre(ignored_values)) or '
                           '(any(m_seq[t][0] == k for t in range(m)) and pre(global_storage)[k] > rare_value_count_upper_bound)), "tuple[str,str]")'),
                ('to_remove', 'forall(lambda k: (k in keys_to_remove) == (any(m_seq[t][0] == k for t in range(m)) and '
                              'pre(global_storage)[k] > rare_value_count_upper_bound), "tuple[str,str]")'),
                ('to_remove_distinct', 'all(keys_to_remove[a] != keys_to_remove[b] for b in range(len(keys_to_remove)) for a in range(b))'),
            ]),
            4: dict(index='r', inv=[
                ('removed', 'forall(lambda k: (k in global_storage) == ((k in pre(global_storage)) and not any(keys_to_remove[t] == k for t in range(r))), "tuple[str,str]")'),
                ('values_kept', 'forall(lambda k: implies(k in global_storage, global_storage[k] == pre(global_storage)[k]), "tuple[str,str]")'),
                ('ignored_kept', 'forall(lambda k: (k in ignored_values) == (k in pre(ignored_values)), "tuple[str,str]")'),
            ]),
        },
    ),

    # ---------------------------------------------------------------- C08: streaming loop
    'compute_batch_ranking': dict(
        external=True, strings='opaque',
        param_names=['line_tmp_storage', 'numeric_column_types', 'args', 'cpu_pool', 'column_descriptions', 'logger', 'pbar'],
        params={}, globals={'BATCH_NO': 'int'}, modifies=['BATCH_NO'],
        returns=[{'__class__': 'BatchRankingSummary', 'triplet_scores': 'list[tuple[str,str,real]]', 'step_times': 'StepTimes'},
                 'Bounds', 'dict[str,real]', 'Memory'],
        requires=[],
        # Rank(rows, state): the triplets are a function of the batch rows and of the number of batches ranked before
        ensures=[('triplets', 'same_array(result[0].triplet_scores, batch_triplets(line_tmp_storage, 0, len(line_tmp_storage), old(BATCH_NO)))'),
                 ('counter', 'BATCH_NO == old(BATCH_NO) + 1')],
    ),
    'get_grouped_df': dict(
        external=True, strings='opaque', param_names=['importances_df_list'], params={}, returns='GroupedDF',
        function_symbol='median_table', function_args=['importances_df_list'], pure='@function_symbol', requires=[],
    ),
    'checkpoint_importances_df': dict(
        external=True, strings='opaque', param_names=['importances_batch'], params={},
        globals={'CHECKPOINT_FILE': 'GroupedDF'}, modifies=['CHECKPOINT_FILE'], requires=[],
        ensures=[('file_holds_median_table', 'CHECKPOINT_FILE == fn_opaque("median_table", "GroupedDF", importances_batch)')],
    ),
    'estimate_importances_minibatches': dict(
        strings='opaque',
        params={'input_file': 'str', 'column_descriptions': 'list[str]', 'fw_col_mapping': 'FwMap', 'numeric_column_types': 'NumTypes',
                'batch_size': 'int',
                'args': {'__class__': 'args', 'subsampling': 'int', 'minibatch_size': 'int', 'heuristic': 'str', 'data_source': 'str',
                         'disable_tqdm': 'str'},
                'data_encoding': 'str', 'cpu_pool': {'__class__': 'Pool'}, 'delimiter': 'str', 'feature_construction_mode': 'bool',
                'logger': {'__class__': 'logger'},
                # ghosts: the data lines of the file (after the header), their parses, field counts, and the consumed rows
                'data_lines': 'list[str]', 'parsed': 'list[list[str]]', 'nf': 'list[int]', 'consumed': 'list[list[str]]'},
        globals={'BATCH_NO': 'int', 'CHECKPOINT_FILE': 'GroupedDF', 'GLOBAL_CARDINALITY_STORAGE': 'GStore1', 'GLOBAL_RARE_VALUE_STORAGE': 'GStore2',
                 'GLOBAL_PRIOR_COMB_COUNTS': 'GStore3', 'GLOBAL_COUNTS_STORAGE': 'GStore4'},
        modifies=['BATCH_NO', 'CHECKPOINT_FILE'],
        inert=['local_pbar', 'invalid_line_queue', 'local_coverage_object', 'logger'],
        local_kinds={'importances_df': 'list[tuple[str,str,real]]', 'line_tmp_storage': 'list[list[str]]',
                     'bounds_storage_batch': 'list[Bounds]', 'memory_storage_batch': 'list[Memory]', 'step_timing_checkpoints': 'list[StepTimes]'},
        lemmas=['nvalid_mono', 'trip_off_block'],
        unfold=['batch_j'],
        asserts={
            'loop#1.end': [
                ('older_batches_below', 'all(trip_off(consumed, args.minibatch_size, j) >= 0 and trip_off(consumed, args.minibatch_size, j) + '
                                        'len(batch_j(consumed, args.minibatch_size, j)) <= len(prev(importances_df)) '
                                        'for j in range(len(prev(step_timing_checkpoints))))'),
                ('prefix_kept', 'len(importances_df) >= len(prev(importances_df)) and '
                                'all(importances_df[i] == prev(importances_df)[i] for i in range(len(prev(importances_df))))'),
                ('new_batch_block', 'implies(len(step_timing_checkpoints) == len(prev(step_timing_checkpoints)) + 1, '
                                    'all(importances_df[len(prev(importances_df)) + t] == batch_j(consumed, args.minibatch_size, len(prev(step_timing_checkpoints)))[t] for t in range(len(batch_j(consumed, args.minibatch_size, len(prev(step_timing_checkpoints)))))))'),
                ('batches_grow_by_at_most_one', 'len(step_timing_checkpoints) == len(prev(step_timing_checkpoints)) or '
                                                'len(step_timing_checkpoints) == len(prev(step_timing_checkpoints)) + 1'),
            ],
            'after:importances_batch, bounds_storage, coverage_storage, memory_storage = compute_batch_ranking(': [
                ('full_batch', 'len(line_tmp_storage) == args.minibatch_size'),
                ('same_rows', 'all(same_array(line_tmp_storage[t], consumed[len(step_timing_checkpoints) * args.minibatch_size + t]) '
                              'for t in range(args.minibatch_size))'),
                ('same_batch', 'same_array(importances_batch.triplet_scores, batch_j(consumed, args.minibatch_size, len(step_timing_checkpoints)))'),
            ],
        },
        abstract={
            'local_pbar = tqdm.tqdm(': dict(var='local_pbar', kind={'__class__': 'pbar'}, facts=[]),
            'file_name, file_extension = os.path.splitext(': dict(var=['file_name', 'file_extension'], kind=['str', 'str'], facts=[]),
            # opening the input: the stream yields the header, then the data lines in file order (trusted file contract)
            'file_stream = gzip.open(': dict(var='file_stream', kind={'__class__': 'File', 'lines': 'expr:data_lines'}, facts=[]),
            'file_stream = open(': dict(var='file_stream', kind={'__class__': 'File', 'lines': 'expr:data_lines'}, facts=[]),
            'invalid_lines_log =': dict(var='invalid_lines_log', kind='str', facts=[]),
        },
        requires=[
            ('parameters', 'args.subsampling >= 1 and args.minibatch_size >= 1 and BATCH_NO == 0'),
            ('parses', 'len(parsed) == len(data_lines) and len(nf) == len(data_lines) and all(same_array(parsed[i], '
                       'fn_list("fn_generic_line_parser", data_lines[i], delimiter, args.data_source, fw_col_mapping, column_descriptions)) '
                       'and nf[i] == len(parsed[i]) for i in range(len(data_lines)))'),
            # the reference semantics: `consumed` lists, in file order, the parses of the lines whose 1-based position is a
            # multiple of the subsampling factor and whose field count equals the header's
            ('consumed_rows', 'len(consumed) == nvalid(nf, args.subsampling, len(column_descriptions), len(data_lines)) and '
                              'all(implies((i + 1) % args.subsampling == 0 and nf[i] == len(column_descriptions), '
                              'same_array(consumed[nvalid(nf, args.subsampling, len(column_descriptions), i)], parsed[i])) for i in range(len(data_lines)))'),
        ],
        returns=['list[StepTimes]', 'GroupedDF', 'GStore1', 'list[Bounds]', 'list[Memory]', {'__class__': 'defaultdict'}, 'GStore2', 'GStore3', 'GStore4'],
        ghost_out={'g_invalid': 'int', 'g_full': 'int', 'g_nb': 'int', 'g_trips': 'list[tuple[str,str,real]]'},
        ghost_bind={'g_invalid': 'invalid_lines', 'g_full': 'len(memory_storage_batch)', 'g_nb': 'len(step_timing_checkpoints)', 'g_trips': 'importances_df'},
        ensures=[
            ('malformed_rows_counted', 'g_invalid == ninvalid(nf, args.subsampling, len(column_descriptions), len(data_lines))'),
            ('full_batches', 'g_full >= 0 and len(consumed) - g_full * args.minibatch_size >= 0 and len(consumed) - g_full * args.minibatch_size < args.minibatch_size'),
            ('tail_rule', 'g_nb == g_full + ite(len(consumed) - g_full * args.minibatch_size > 1024, 1, 0)'),
            ('triplets_of_full_batches', 'all(g_trips[trip_off(consumed, args.minibatch_size, j) + t] == '
                                         'batch_j(consumed, args.minibatch_size, j)[t] '
                                         'for j in range(g_full) for t in range(len(batch_j(consumed, args.minibatch_size, j))))'),
            ('triplets_of_tail', 'implies(g_nb == g_full + 1, '
                                 'len(g_trips) == trip_off(consumed, args.minibatch_size, g_full) + len(batch_triplets(consumed, g_full * args.minibatch_size, len(consumed) - g_full * args.minibatch_size, g_full)) and '
                                 'all(g_trips[trip_off(consumed, args.minibatch_size, g_full) + t] == '
                                 'batch_triplets(consumed, g_full * args.minibatch_size, len(consumed) - g_full * args.minibatch_size, g_full)[t] '
                                 'for t in range(len(batch_triplets(consumed, g_full * args.minibatch_size, len(consumed) - g_full * args.minibatch_size, g_full)))))'),
            ('no_tail_no_extra', 'implies(g_nb == g_full, len(g_trips) == trip_off(consumed, args.minibatch_size, g_full))'),
            ('result_is_median_table_of_all_triplets', 'result[1] == fn_opaque("median_table", "GroupedDF", g_trips)'),
            ('checkpoint_after_every_batch', 'implies(g_nb >= 1 and (args.heuristic != "Constant" or g_nb == g_full + 1), '
                                             'CHECKPOINT_FILE == fn_opaque("median_table", "GroupedDF", g_trips))'),
        ],
        loops={
            1: dict(index='k', inv=[
                ('position', 'line_counter == k'),
                ('invalid', 'invalid_lines == ninvalid(nf, args.subsampling, len(column_descriptions), k)'),
                ('batches', 'nvalid(nf, args.subsampling, len(column_descriptions), k) == len(step_timing_checkpoints) * args.minibatch_size + len(line_tmp_storage) '
                            'and len(line_tmp_storage) < args.minibatch_size and len(memory_storage_batch) == len(step_timing_checkpoints) '
                            'and BATCH_NO == len(step_timing_checkpoints)'),
                ('buffer', 'all(same_array(line_tmp_storage[t], consumed[len(step_timing_checkpoints) * args.minibatch_size + t]) for t in range(len(line_tmp_storage)))'),
                ('triplets_len', 'len(importances_df) == trip_off(consumed, args.minibatch_size, len(step_timing_checkpoints))'),
                ('triplets', 'all(importances_df[trip_off(consumed, args.minibatch_size, j) + t] == '
                             'batch_j(consumed, args.minibatch_size, j)[t] '
                             'for j in range(len(step_timing_checkpoints)) for t in range(len(batch_j(consumed, args.minibatch_size, j))))'),
                ('checkpoint', 'implies(len(step_timing_checkpoints) >= 1 and args.heuristic != "Constant", '
                               'CHECKPOINT_FILE == fn_opaque("median_table", "GroupedDF", importances_df))'),
            ]),
            2: dict(inv=[]),
            3: dict(inv=[]),
        },
    ),

    # ---------------------------------------------------------------- C10: interaction features
    'compute_combined_features.length_prefixed': dict(
        strings='opaque', params={'value': 'str'}, returns='str', pure='lp(value)', unfold=['lp'], requires=[], ensures=[], frame=True),
    'compute_combined_features.combine_features': dict(
        strings='opaque',
        params={'new_combination': 'list[str]',
                'input_dataframe': {'__class__': 'DataFrame', 'columns': 'list[str]', 'nrows': 'int', 'data': 'FrameData', 'cells': 'const:"str"'},
                'join_string': 'str'},
        returns=['str', 'list[str]'],
        frame=True,
        lemma_map={'ensures.faithful': ['lpcat_faithful'], 'inv#1': []},
        requires=[
            ('order', 'len(new_combination) >= 1'), ('rows', 'input_dataframe.nrows >= 0'),
            ('constituents_are_columns', 'all(new_combination[c] in input_dataframe.columns for c in range(len(new_combination)))'),
        ],
        ensures=[
            ('name_joins_the_constituents', 'result[0] == join_string.join(new_combination)'),
            ('one_value_per_row', 'len(result[1]) == input_dataframe.nrows'),
            # equal interaction values <=> the rows agree on every constituent feature (up to hash collisions: xxh64 idealised as injective)
            ('faithful', 'all((result[1][i] == result[1][j]) == '
                         'all(input_dataframe[new_combination[c]].values[i] == input_dataframe[new_combination[c]].values[j] for c in range(len(new_combination))) '
                         'for i in range(input_dataframe.nrows) for j in range(input_dataframe.nrows))'),
            ('faithful_packed', 'faithful_col(result[1], input_dataframe, new_combination)'),
        ],
        asserts={'after:combined_feature = combined_feature.apply': [
            ('hashed_concatenation', 'len(combined_feature) == input_dataframe.nrows and '
                                     'all(combined_feature[i] == xxh64hex(lpcat(input_dataframe, new_combination, i, 0)) for i in range(input_dataframe.nrows))'),
        ]},
        loops={1: dict(index='t', inv=[
            ('rows', 'len(combined_feature) == input_dataframe.nrows'), ('owned', 'owned(combined_feature)'),
            ('prefix', 'all(combined_feature[i] + lpcat(input_dataframe, new_combination, i, t + 1) == lpcat(input_dataframe, new_combination, i, 0) '
                       'for i in range(input_dataframe.nrows))'),
        ])},
        unfold=['lp', 'lpcat'], unfold_map={'ensures.faithful_packed': ['faithful_col'], 'ensures.': []},
    ),

    # ---------------------------------------------------------------- C11: feature construction
    'compute_expanded_multivalue_features': dict(
        strings='opaque',
        params={'input_dataframe': {'__class__': 'DataFrame', 'columns': 'list[str]', 'nrows': 'int', 'data': 'FrameData', 'cells': 'const:"str"'},
                'logger': 'inert', 'pbar': 'inert',
                'args': {'__class__': 'args', 'explode_multivalue_features': 'str', 'missing_value_symbols': 'str'}},
        local_kinds={'new_feature_hash': 'dict[str,list[str]]', 'tmp_vec': 'list[str]'},
        requires=[
            ('rows', 'input_dataframe.nrows >= 1'),
            ('distinct_columns', 'all(input_dataframe.columns[i] != input_dataframe.columns[j] for j in range(len(input_dataframe.columns)) for i in range(j))'),
            ('exploded_features_are_columns', 'all(args.explode_multivalue_features.split(";")[k] in input_dataframe.columns '
                                              'for k in range(len(args.explode_multivalue_features.split(";"))))'),
        ],
        ensures=[
            ('original_columns_first', 'len(result.columns) >= len(old(input_dataframe).columns) and '
                                       'all(result.columns[c] == old(input_dataframe).columns[c] for c in range(len(old(input_dataframe).columns)))'),
            ('row_count_kept', 'result.nrows == old(input_dataframe).nrows'),
            ('original_values_untouched', 'all(implies(not any(result.columns[m] == old(input_dataframe).columns[c] for m in range(len(old(input_dataframe).columns), len(result.columns))), '
                                          'all(result[old(input_dataframe).columns[c]].values[i] == old(input_dataframe)[old(input_dataframe).columns[c]].values[i] for i in range(old(input_dataframe).nrows))) '
                                          'for c in range(len(old(input_dataframe).columns)))'),
            # every appended column is the indicator of one token of one exploded feature: "1" exactly on the rows whose delimited value contains the token
            ('indicator_iff_row_contains_token',
             'all(implies(not (result.columns[m] in old(input_dataframe).columns), exists(lambda f: exists(lambda t: '
             '(f in args.explode_multivalue_features.split(";")) and result.columns[m] == "MULTIEX-" + f + "-" + t and '
             'all(result[result.columns[m]].values[r] == ite(t in set(old(input_dataframe)[f].values[r].replace(",", "-").split("-")), "1", "") for r in range(old(input_dataframe).nrows)), '
             '"str"), "str")) for m in range(len(old(input_dataframe).columns), len(result.columns)))'),
        ],
        loops={
            1: dict(index='a', inv=[
                ('rows', 'forall(lambda nm: implies(nm in new_feature_hash, len(new_feature_hash[nm]) == input_dataframe.nrows), "str")'),
                ('rule', 'forall(lambda nm: implies(nm in new_feature_hash, exists(lambda f: exists(lambda t: (f in considered_multivalue_features) and nm == "MULTIEX-" + f + "-" + t and all(new_feature_hash[nm][r] == ite(t in set(input_dataframe[f].values[r].replace(",", "-").split("-")), "1", "") for r in range(input_dataframe.nrows)), "str"), "str")), "str")'),
            ]),
            2: dict(index='b', inv=[
                ('removed', 'forall(lambda t: (t in unique_values) == ((t in pre(unique_values)) and not any(b_seq[i] == t for i in range(b))), "str")'),
            ]),
            3: dict(index='c', inv=[
                ('rows', 'forall(lambda nm: implies(nm in new_feature_hash, len(new_feature_hash[nm]) == input_dataframe.nrows), "str")'),
                ('rule', 'forall(lambda nm: implies(nm in new_feature_hash, exists(lambda f: exists(lambda t: (f in considered_multivalue_features) and nm == "MULTIEX-" + f + "-" + t and all(new_feature_hash[nm][r] == ite(t in set(input_dataframe[f].values[r].replace(",", "-").split("-")), "1", "") for r in range(input_dataframe.nrows)), "str"), "str")), "str")'),
            ]),
            4: dict(index='r', inv=[
                ('indicator', 'len(tmp_vec) == r and all(tmp_vec[i] == ite(unique_value in multivalue_sets[i], "1", "") for i in range(r))'),
            ]),
        },
    ),

    'compute_subfeatures': dict(
        strings='opaque',
        params={'input_dataframe': {'__class__': 'DataFrame', 'columns': 'list[str]', 'nrows': 'int', 'data': 'FrameData', 'cells': 'const:"str"'}, 'logger': 'inert', 'pbar': 'inert',
                'args': {'__class__': 'args', 'subfeature_mapping': 'str'}},
        local_kinds={'new_feature_hash': 'dict[str,list[str]]', 'new_feature': 'list[str]', 'mask_types': 'list[tuple[str,str]]'},
        inert=['del new_feature'],
        requires=[
            ('rows', 'input_dataframe.nrows >= 1'),
            ('distinct_columns', 'all(input_dataframe.columns[i] != input_dataframe.columns[j] for j in range(len(input_dataframe.columns)) for i in range(j))'),
            # every seed pair is  a<->b  or  a->b  with a, b columns of the frame
            ('well_formed_mapping', 'all(ite("<->" in args.subfeature_mapping.split(";")[k], '
                                    'len(args.subfeature_mapping.split(";")[k].split("<->")) == 2 and '
                                    'args.subfeature_mapping.split(";")[k].split("<->")[0] in input_dataframe.columns and '
                                    'args.subfeature_mapping.split(";")[k].split("<->")[1] in input_dataframe.columns, '
                                    '("->" in args.subfeature_mapping.split(";")[k]) and len(args.subfeature_mapping.split(";")[k].split("->")) == 2 and '
                                    'args.subfeature_mapping.split(";")[k].split("->")[0] in input_dataframe.columns and '
                                    'args.subfeature_mapping.split(";")[k].split("->")[1] in input_dataframe.columns) '
                                    'for k in range(len(args.subfeature_mapping.split(";"))))'),
        ],
        ensures=[
            ('original_columns_first', 'len(result.columns) >= len(old(input_dataframe).columns) and '
                                       'all(result.columns[c] == old(input_dataframe).columns[c] for c in range(len(old(input_dataframe).columns)))'),
            ('original_values_untouched', 'all(implies(not any(result.columns[m] == old(input_dataframe).columns[c] for m in range(len(old(input_dataframe).columns), len(result.columns))), '
                                          'all(result[old(input_dataframe).columns[c]].values[i] == old(input_dataframe)[old(input_dataframe).columns[c]].values[i] for i in range(old(input_dataframe).nrows))) '
                                          'for c in range(len(old(input_dataframe).columns)))'),
            ('sub_feature_rule', 'all(implies(not (result.columns[m] in old(input_dataframe).columns), (exists(lambda a: exists(lambda b: exists(lambda v: (a in old(input_dataframe).columns) and (b in old(input_dataframe).columns) and result.columns[m] == "SUBFEATURE-" + a + "&" + v and all(result[result.columns[m]].values[r] == ite(old(input_dataframe)[b].values[r] == v, old(input_dataframe)[a].values[r] + "AND" + old(input_dataframe)[b].values[r], "") for r in range(old(input_dataframe).nrows)), "str"), "str"), "str")) or (exists(lambda a: exists(lambda b: exists(lambda va: exists(lambda vb: (a in old(input_dataframe).columns) and (b in old(input_dataframe).columns) and result.columns[m] == "SUBFEATURE|" + a + "|" + b + "-" + va + "&" + vb and all(result[result.columns[m]].values[r] == ite(old(input_dataframe)[a].values[r] == va and old(input_dataframe)[b].values[r] == vb, "1", "0") for r in range(old(input_dataframe).nrows)), "str"), "str"), "str"), "str"))) '
                                 'for m in range(len(old(input_dataframe).columns), len(result.columns)))'),
        ],
        loops={
            1: dict(index='s', inv=[('rows', 'forall(lambda nm: implies(nm in new_feature_hash, len(new_feature_hash[nm]) == input_dataframe.nrows), "str")'), ('rule', 'forall(lambda nm: implies(nm in new_feature_hash, (exists(lambda a: exists(lambda b: exists(lambda v: (a in input_dataframe.columns) and (b in input_dataframe.columns) and nm == "SUBFEATURE-" + a + "&" + v and all(new_feature_hash[nm][r] == ite(input_dataframe[b].values[r] == v, input_dataframe[a].values[r] + "AND" + input_dataframe[b].values[r], "") for r in range(input_dataframe.nrows)), "str"), "str"), "str")) or (exists(lambda a: exists(lambda b: exists(lambda va: exists(lambda vb: (a in input_dataframe.columns) and (b in input_dataframe.columns) and nm == "SUBFEATURE|" + a + "|" + b + "-" + va + "&" + vb and all(new_feature_hash[nm][r] == ite(input_dataframe[a].values[r] == va and input_dataframe[b].values[r] == vb, "1", "0") for r in range(input_dataframe.nrows)), "str"), "str"), "str"), "str"))), "str")')]),
            2: dict(index='u', inv=[]),
            3: dict(index='w', inv=[]),
            4: dict(index='q', inv=[('rows', 'forall(lambda nm: implies(nm in new_feature_hash, len(new_feature_hash[nm]) == input_dataframe.nrows), "str")'), ('rule', 'forall(lambda nm: implies(nm in new_feature_hash, (exists(lambda a: exists(lambda b: exists(lambda v: (a in input_dataframe.columns) and (b in input_dataframe.columns) and nm == "SUBFEATURE-" + a + "&" + v and all(new_feature_hash[nm][r] == ite(input_dataframe[b].values[r] == v, input_dataframe[a].values[r] + "AND" + input_dataframe[b].values[r], "") for r in range(input_dataframe.nrows)), "str"), "str"), "str")) or (exists(lambda a: exists(lambda b: exists(lambda va: exists(lambda vb: (a in input_dataframe.columns) and (b in input_dataframe.columns) and nm == "SUBFEATURE|" + a + "|" + b + "-" + va + "&" + vb and all(new_feature_hash[nm][r] == ite(input_dataframe[a].values[r] == va and input_dataframe[b].values[r] == vb, "1", "0") for r in range(input_dataframe.nrows)), "str"), "str"), "str"), "str"))), "str")')]),
            5: dict(index='r', inv=[('indicator', 'len(new_feature) == r and all(new_feature[i] == ite(out_template_feature[i][0] == mask_type[0] and '
                                                  'out_template_feature[i][1] == mask_type[1], "1", "0") for i in range(r))')]),
            6: dict(index='z', inv=[('rows', 'forall(lambda nm: implies(nm in new_feature_hash, len(new_feature_hash[nm]) == input_dataframe.nrows), "str")'), ('rule', 'forall(lambda nm: implies(nm in new_feature_hash, (exists(lambda a: exists(lambda b: exists(lambda v: (a in input_dataframe.columns) and (b in input_dataframe.columns) and nm == "SUBFEATURE-" + a + "&" + v and all(new_feature_hash[nm][r] == ite(input_dataframe[b].values[r] == v, input_dataframe[a].values[r] + "AND" + input_dataframe[b].values[r], "") for r in range(input_dataframe.nrows)), "str"), "str"), "str")) or (exists(lambda a: exists(lambda b: exists(lambda va: exists(lambda vb: (a in input_dataframe.columns) and (b in input_dataframe.columns) and nm == "SUBFEATURE|" + a + "|" + b + "-" + va + "&" + vb and all(new_feature_hash[nm][r] == ite(input_dataframe[a].values[r] == va and input_dataframe[b].values[r] == vb, "1", "0") for r in range(input_dataframe.nrows)), "str"), "str"), "str"), "str"))), "str")')]),
        },
    ),

    'compute_combined_features': dict(
        strings='opaque',
        params={'input_dataframe': {'__class__': 'DataFrame', 'columns': 'list[str]', 'nrows': 'int', 'data': 'FrameData', 'cells': 'const:"str"'}, 'pbar': 'inert', 'is_3mr': 'bool',
                'args': {'__class__': 'args', 'interaction_order': 'int', 'label_column': 'str', 'reference_model_JSON': 'str', 'heuristic': 'str',
                         'combination_number_upper_bound': 'int'}},
        globals={'GLOBAL_PRIOR_COMB_COUNTS': 'counter[list[str]]'}, modifies=['GLOBAL_PRIOR_COMB_COUNTS'],
        local_kinds={'new_feature_hash': 'dict[str,list[str]]', 'full_combination_space': 'list[list[str]]'},
        inert=['del tmp_df'],
        ghost_out={'g_space': 'list[list[str]]'}, ghost_bind={'g_space': 'full_combination_space'},
        asserts={'after:ftr_name, combined_feature = combine_features': [('this_candidate', 'ftr_name == join_string.join(full_combination_space[q]) and len(combined_feature) == input_dataframe.nrows and faithful_col(combined_feature, input_dataframe, full_combination_space[q])')]},
        requires=[
            ('rows', 'input_dataframe.nrows >= 0'), ('cap', 'args.combination_number_upper_bound >= 0'),
            ('distinct_columns', 'all(input_dataframe.columns[i] != input_dataframe.columns[j] for j in range(len(input_dataframe.columns)) for i in range(j))'),
            ('no_reference_model', 'args.reference_model_JSON == ""'),
        ],
        ensures=[
            ('original_columns_first', 'len(result.columns) >= len(old(input_dataframe).columns) and '
                                       'all(result.columns[c] == old(input_dataframe).columns[c] for c in range(len(old(input_dataframe).columns)))'),
            ('original_values_untouched', 'all(implies(not any(result.columns[m] == old(input_dataframe).columns[c] for m in range(len(old(input_dataframe).columns), len(result.columns))), '
                                          'all(result[old(input_dataframe).columns[c]].values[i] == old(input_dataframe)[old(input_dataframe).columns[c]].values[i] for i in range(old(input_dataframe).nrows))) '
                                          'for c in range(len(old(input_dataframe).columns)))'),
            ('candidates_are_k_subsets_of_the_non_label_columns',
             'len(g_space) <= args.combination_number_upper_bound and all(len(g_space[p]) == ite(is_3mr, 2, args.interaction_order) and '
             'all((g_space[p][c] in old(input_dataframe).columns) and g_space[p][c] != args.label_column for c in range(len(g_space[p]))) for p in range(len(g_space)))'),
            ('every_new_column_is_a_faithful_interaction',
             'all(implies(not (result.columns[m] in old(input_dataframe).columns), '
             f'any(result.columns[m] == ite(is_3mr, " AND_REL ", " AND ").join(g_space[p]) and all((result[result.columns[m]].values[i] == result[result.columns[m]].values[j]) == all(old(input_dataframe)[g_space[p][c]].values[i] == old(input_dataframe)[g_space[p][c]].values[j] for c in range(len(g_space[p]))) for i in range(old(input_dataframe).nrows) for j in range(old(input_dataframe).nrows)) for p in range(len(g_space)))) '
             'for m in range(len(old(input_dataframe).columns), len(result.columns)))'),
        ],
        unfold_map={'ensures.every_new_column': ['faithful_col']},
        loops={1: dict(index='q', inv=[('rows', 'forall(lambda nm: implies(nm in new_feature_hash, len(new_feature_hash[nm]) == input_dataframe.nrows), "str")'), ('rule', 'forall(lambda nm: implies(nm in new_feature_hash, any(nm == join_string.join(full_combination_space[p]) and faithful_col(new_feature_hash[nm], input_dataframe, full_combination_space[p]) for p in range(q))), "str")')])},
    ),
}
