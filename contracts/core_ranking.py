"""Contracts for outrank/core_ranking.py (C06-C08, C10, C11, C13)."""
MODULE = 'outrank/core_ranking.py'

ARGS_CAP = {'__class__': 'args', 'combination_number_upper_bound': 'int'}
CL = ['cnt_opaque_Comb_bounds', 'cnt_opaque_Comb_absent', 'cnt_opaque_Comb_present', 'cnt_opaque_Comb_distinct']

CONTRACTS = {
    'prior_combinations_sample': dict(
        params={'combinations': 'list[Comb]', 'args': ARGS_CAP},
        globals={'GLOBAL_PRIOR_COMB_COUNTS': 'counter[Comb]'},
        modifies=['GLOBAL_PRIOR_COMB_COUNTS'],
        requires=[('cap_nonneg', 'args.combination_number_upper_bound >= 0')],
        returns='list[Comb]',
        lemmas=CL,
        ensures=[
            ('len', 'len(result) == min2(args.combination_number_upper_bound, len(combinations))'),
            ('candidates', 'all(result[i] in combinations for i in range(len(result)))'),
            ('least_first', 'all(implies(not (combinations[j] in result), '
                            'old(GLOBAL_PRIOR_COMB_COUNTS)[result[i]] <= old(GLOBAL_PRIOR_COMB_COUNTS)[combinations[j]]) '
                            'for i in range(len(result)) for j in range(len(combinations)))'),
            ('counts', 'forall(lambda c: GLOBAL_PRIOR_COMB_COUNTS[c] == old(GLOBAL_PRIOR_COMB_COUNTS)[c] '
                       '+ cnt(result, c, len(result)), "Comb")'),
            ('distinct', 'implies(all(combinations[i] != combinations[j] for j in range(len(combinations)) for i in range(j)), '
                         'all(result[i] != result[j] for j in range(len(result)) for i in range(j)))'),
            ('frame', 'forall(lambda c: implies(not (c in combinations), '
                      'GLOBAL_PRIOR_COMB_COUNTS[c] == old(GLOBAL_PRIOR_COMB_COUNTS)[c]), "Comb")'),
        ],
        loops={
            1: dict(index='k', inv=[
                ('view', 'forall(lambda c: GLOBAL_PRIOR_COMB_COUNTS[c] == old(GLOBAL_PRIOR_COMB_COUNTS)[c], "Comb")'),
                ('kept', 'forall(lambda c: implies(c in old(GLOBAL_PRIOR_COMB_COUNTS), c in GLOBAL_PRIOR_COMB_COUNTS), "Comb")'),
                ('added', 'all(k_seq[i] in GLOBAL_PRIOR_COMB_COUNTS for i in range(k))'),
            ]),
            2: dict(index='m', inv=[
                ('incr', 'forall(lambda c: GLOBAL_PRIOR_COMB_COUNTS[c] == old(GLOBAL_PRIOR_COMB_COUNTS)[c] '
                         '+ cnt(tmp, c, m), "Comb")'),
            ]),
        },
    ),

    # ---- history part of C07: one call preserves fairness (induction step over the sequence of batches)
    'lemma_fair_step': dict(
        module='/verif/contracts/lemma_src/c07_lemmas.py', qualname='fair_step',
        params={'L': 'list[Comb]', 'args': ARGS_CAP},
        globals={'GLOBAL_PRIOR_COMB_COUNTS': 'counter[Comb]'},
        requires=[
            ('cap_nonneg', 'args.combination_number_upper_bound >= 0'),
            ('distinct', 'all(L[i] != L[j] for j in range(len(L)) for i in range(j))'),
            ('fair', 'all(GLOBAL_PRIOR_COMB_COUNTS[L[i]] - GLOBAL_PRIOR_COMB_COUNTS[L[j]] <= 1 '
                     'for i in range(len(L)) for j in range(len(L)))'),
        ],
        returns='list[Comb]',
        lemmas=CL,
        ensures=[
            ('fair', 'all(GLOBAL_PRIOR_COMB_COUNTS[L[i]] - GLOBAL_PRIOR_COMB_COUNTS[L[j]] <= 1 '
                     'for i in range(len(L)) for j in range(len(L)))'),
            ('exactly_cap_distinct', 'len(result) == min2(args.combination_number_upper_bound, len(L)) and '
                                     'all(result[i] != result[j] for j in range(len(result)) for i in range(j))'),
            ('count_is_selection', 'forall(lambda c: GLOBAL_PRIOR_COMB_COUNTS[c] == old(GLOBAL_PRIOR_COMB_COUNTS)[c] '
                                   '+ ite(c in result, 1, 0), "Comb")'),
        ],
    ),
    'lemma_disjoint_call_keeps_fair': dict(
        module='/verif/contracts/lemma_src/c07_lemmas.py', qualname='disjoint_call_keeps_fair',
        params={'L': 'list[Comb]', 'other': 'list[Comb]', 'args': ARGS_CAP},
        globals={'GLOBAL_PRIOR_COMB_COUNTS': 'counter[Comb]'},
        requires=[
            ('cap_nonneg', 'args.combination_number_upper_bound >= 0'),
            ('disjoint', 'all(not (L[i] in other) for i in range(len(L)))'),
            ('fair', 'all(GLOBAL_PRIOR_COMB_COUNTS[L[i]] - GLOBAL_PRIOR_COMB_COUNTS[L[j]] <= 1 '
                     'for i in range(len(L)) for j in range(len(L)))'),
        ],
        returns='list[Comb]',
        lemmas=CL,
        ensures=[
            ('fair', 'all(GLOBAL_PRIOR_COMB_COUNTS[L[i]] - GLOBAL_PRIOR_COMB_COUNTS[L[j]] <= 1 '
                     'for i in range(len(L)) for j in range(len(L)))'),
        ],
    ),
}
