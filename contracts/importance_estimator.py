"""Contracts for outrank/algorithms/importance_estimator.py (C03, C05, C09, C17)."""
MODULE = 'outrank/algorithms/importance_estimator.py'

_G = {'g_fv': 'g_fv', 'g_fc': 'g_fc', 'g_cv': 'g_cv', 'g_cc': 'g_cc', 'g_eff': 'g_eff', 'g_sx': 'g_sx', 'g_sy': 'g_sy'}

ARGS_RANK = {'__class__': 'args', 'heuristic': 'str', 'label_column': 'str', 'reference_model_JSON': 'str',
             'mi_stratified_sampling_ratio': 'real'}
FRAME_INT = {'__class__': 'DataFrame', 'columns': 'list[str]', 'nrows': 'int', 'data': 'FrameData', 'cells': 'const:"int"'}
VALID2 = [
    ('lens', 'len(vector_first) == len(vector_second) and len(vector_first) >= 1 and len(vector_first) <= 10**6'),
    ('codes_first', 'all(0 <= vector_first[i] and vector_first[i] < 2**20 for i in range(len(vector_first)))'),
    ('codes_second', 'all(0 <= vector_second[i] and vector_second[i] < 2**20 for i in range(len(vector_second)))'),
]
_C0, _C1, _LAB = 'combination[0]', 'combination[1]', 'args.label_column'
ROLE_FIRST = f'ite({_C0} == {_LAB}, tmp_df[{_C1}].values, tmp_df[{_C0}].values)'
ROLE_SECOND = f'ite({_C0} == {_LAB}, tmp_df[{_LAB}].values, tmp_df[{_C1}].values)'
PAIR_SCORE = f'fn("fn_rank", {ROLE_FIRST}, {ROLE_SECOND}, args.heuristic, args.mi_stratified_sampling_ratio)'


def _external(name, params):
    return dict(external=True, param_names=params, params={p: 'int64[:]' for p in params}, strings='opaque',
                returns='real', function_symbol=name, pure='@function_symbol',
                requires=[])


CONTRACTS = {
    # ---- assumed contracts of library scorers: "they compute what their names say" (deterministic functions)
    'sklearn_MI': _external('fn_sklearn_mutual_info_classif', ['vector_first', 'vector_second']),
    'sklearn_mi_adj': _external('fn_sklearn_adjusted_mutual_info_score', ['vector_first', 'vector_second']),
    'pearsonr': dict(_external('fn_scipy_pearsonr', ['x', 'y']), returns=['real', 'real']),
    'sklearn_surrogate': dict(external=True, param_names=['vector_first', 'vector_second', 'surrogate_model'], strings='opaque',
                              params={'vector_first': 'int64[:]', 'vector_second': 'int64[:]', 'surrogate_model': 'str'},
                              returns='real', function_symbol='fn_sklearn_surrogate', pure='@function_symbol', requires=[]),
    'conduct_feature_ranking': dict(
        strings='opaque',
        params={'vector_first': 'int64[:]', 'vector_second': 'int64[:]', 'args': ARGS_RANK},
        requires=VALID2 + [('ratio', '0 < args.mi_stratified_sampling_ratio and args.mi_stratified_sampling_ratio <= 1')],
        returns='real',
        function_symbol='fn_rank',
        function_args=['vector_first', 'vector_second', 'args.heuristic', 'args.mi_stratified_sampling_ratio'],
        call_ghosts={'numba_mi': {'g_eff': 'g_eff', 'g_fv': 'g_fv', 'g_fc': 'g_fc', 'g_cv': 'g_cv', 'g_cc': 'g_cc'}},
        ghost_out={'g_fv': 'int32[:]', 'g_fc': 'int32[:]', 'g_cv': 'int32[:]', 'g_cc': 'int32[:]', 'g_eff': 'bool'},
        ensures=[
            ('MI', 'implies(args.heuristic == "MI", result == fn("fn_sklearn_mutual_info_classif", vector_first, vector_second))'),
            ('AMI', 'implies(args.heuristic == "AMI", result == fn("fn_sklearn_adjusted_mutual_info_score", vector_first, vector_second))'),
            ('correlation-Pearson', 'implies(args.heuristic == "correlation-Pearson", '
                                    'result == fn("fn_scipy_pearsonr0", vector_first, vector_second))'),
            ('max-value-coverage', 'implies(args.heuristic == "max-value-coverage", '
                                   'result == fn("fn_max_pair_coverage", vector_first, vector_second))'),
            ('Constant', 'implies(args.heuristic == "Constant", result == 0)'),
            # the numba estimator: plug-in MI for MI-numba-3mr, the corrected score for MI-numba-randomized
            ('MI-numba-3mr', 'implies(args.heuristic == "MI-numba-3mr" and args.mi_stratified_sampling_ratio == 1, '
                             'not g_eff and result == entsum(g_cc, len(vector_second), len(g_cv)) - condsum_ns(vector_second, '
                             'vector_first, g_fv, g_fc, len(vector_second), g_cv, len(g_fv)))'),
            ('MI-numba-randomized', 'implies(args.heuristic == "MI-numba-randomized" and args.mi_stratified_sampling_ratio == 1 '
                                    'and not all(vector_first[i] == vector_second[i] for i in range(len(vector_first))), '
                                    'g_eff and result == condsum_bg_ns(vector_second, vector_first, g_fv, g_fc, len(vector_second), '
                                    'g_cv, len(g_fv)) - condsum_ns(vector_second, vector_first, g_fv, g_fc, len(vector_second), '
                                    'g_cv, len(g_fv)))'),
        ],
    ),
    'generate_data_for_ranking': dict(
        strings='opaque', frame=True,
        params={'combination': 'tuple[str,str]', 'reference_model_features': 'list[str]', 'args': ARGS_RANK, 'tmp_df': FRAME_INT},
        requires=[('no_reference_model', 'args.reference_model_JSON == ""'),
                  ('names', f'({_C0} in tmp_df.columns) and ({_C1} in tmp_df.columns) and ({_LAB} in tmp_df.columns)')],
        returns=['int64[:]', 'int64[:]'],
        ensures=[
            ('first', f'same_array(result[0], {ROLE_FIRST})'),
            ('second', f'same_array(result[1], {ROLE_SECOND})'),
            ('label_is_conditioning_target', f'implies({_C0} == {_LAB} or {_C1} == {_LAB}, '
                                             f'same_array(result[1], tmp_df[{_LAB}].values))'),
        ],
    ),
    'get_importances_estimate_pairwise': dict(
        strings='opaque', frame=True,
        params={'combination': 'tuple[str,str]', 'reference_model_features': 'list[str]', 'args': ARGS_RANK, 'tmp_df': FRAME_INT},
        requires=[('no_reference_model', 'args.reference_model_JSON == ""'),
                  ('names', f'({_C0} in tmp_df.columns) and ({_C1} in tmp_df.columns) and ({_LAB} in tmp_df.columns)'),
                  ('rows', 'tmp_df.nrows >= 1 and tmp_df.nrows <= 10**6'),
                  ('ratio', '0 < args.mi_stratified_sampling_ratio and args.mi_stratified_sampling_ratio <= 1'),
                  ('codes', 'forall(lambda c: all(0 <= tmp_df[c].values[i] and tmp_df[c].values[i] < 2**20 '
                            'for i in range(tmp_df.nrows)), "str")')],
        returns=['str', 'str', 'real'],
        pure=f'({_C0}, {_C1}, {PAIR_SCORE})',
        ensures=[('names_kept', f'result[0] == {_C0} and result[1] == {_C1}')],
    ),
    'numba_mi': dict(
        frame=True,
        params={'vector_first': 'int64[:]', 'vector_second': 'int64[:]', 'heuristic': 'str',
                'mi_stratified_sampling_ratio': 'real'},
        requires=[
            ('lens', 'len(vector_first) == len(vector_second) and len(vector_first) >= 1 and len(vector_first) <= 10**6'),
            ('codes_first', 'all(0 <= vector_first[i] and vector_first[i] < 2**20 for i in range(len(vector_first)))'),
            ('codes_second', 'all(0 <= vector_second[i] and vector_second[i] < 2**20 for i in range(len(vector_second)))'),
            ('ratio', '0 < mi_stratified_sampling_ratio and mi_stratified_sampling_ratio <= 1'),
        ],
        returns='real',
        call_ghosts={'mutual_info_estimator_numba': _G},
        ghost_out={'g_fv': 'int32[:]', 'g_fc': 'int32[:]', 'g_cv': 'int32[:]', 'g_cc': 'int32[:]', 'g_eff': 'bool'},
        ensures=[
            # heuristic name -> correction flag; the feature is the first vector, the conditioning target the second
            ('flag', 'g_eff == (heuristic == "MI-numba-randomized" and not all(vector_first[i] == vector_second[i] '
                     'for i in range(len(vector_first))))'),
            ('x_support', 'len(g_fv) == len(g_fc) and all(g_fc[k] == cnt(vector_second, g_fv[k], len(vector_second)) '
                          'and g_fc[k] > 0 for k in range(len(g_fv)))'),
            ('plain', 'implies(mi_stratified_sampling_ratio == 1 and not g_eff, result == '
                      'entsum(g_cc, len(vector_second), len(g_cv)) - condsum_ns(vector_second, vector_first, g_fv, g_fc, '
                      'len(vector_second), g_cv, len(g_fv)))'),
            ('corrected', 'implies(mi_stratified_sampling_ratio == 1 and g_eff, result == '
                          'condsum_bg_ns(vector_second, vector_first, g_fv, g_fc, len(vector_second), g_cv, len(g_fv)) '
                          '- condsum_ns(vector_second, vector_first, g_fv, g_fc, len(vector_second), g_cv, len(g_fv)))'),
        ],
        assumptions=['np.float32(ratio) is the ratio itself (single-precision rounding of the ratio ignored)',
                     '1-D inputs: vector_first.shape[1] raises IndexError, which the bare except swallows (modelled)'],
    ),

    # ---------------------------------------------------------------- C17: 3MR greedy ranking
    'rank_features_3MR.calc_higher_order': dict(
        strings='opaque',
        params={'feature': 'str', 'is_redundancy': 'bool', 'ranked_features': 'list[str]',
                'redundancy_dict': 'dict[tuple[str,str],real]', 'relational_dict': 'dict[tuple[str,str],real]', 'strategy': 'str'},
        local_kinds={'values': 'list[real]'},
        unfold=['agg3', 'vals3'],
        returns='real',
        pure=('ite(is_redundancy, '
              'agg3(strategy, redundancy_dict, ranked_features, len(ranked_features), feature), '
              'agg3(strategy, relational_dict, ranked_features, len(ranked_features), feature))'),
        ensures=[],
        loops={1: dict(index='k', inv=[
            ('values', 'len(values) == k and all(values[i] == ite(is_redundancy, '
                       'vals3(redundancy_dict, ranked_features, len(ranked_features), feature)[i], '
                       'vals3(relational_dict, ranked_features, len(ranked_features), feature)[i]) for i in range(k))'),
        ])},
    ),
    'rank_features_3MR': dict(
        strings='opaque',
        params={'relevance_dict': 'dict[str,real]', 'redundancy_dict': 'dict[tuple[str,str],real]',
                'relational_dict': 'dict[tuple[str,str],real]', 'strategy': 'str', 'alpha': 'real', 'beta': 'real'},
        local_kinds={'most_important_feature': 'opt[str]', 'top_importance': 'real#ext'},
        lemmas=['agg3_prefix'],
        asserts={'loop#1.end': [
            ('prefix_red', 'all(forall(lambda f: agg3(strategy, redundancy_dict, ranked_features, t, f) == '
                           'agg3(strategy, redundancy_dict, prev(ranked_features), t, f), "str") for t in range(0, len(prev(ranked_features)) + 1))'),
            ('prefix_rel', 'all(forall(lambda f: agg3(strategy, relational_dict, ranked_features, t, f) == '
                           'agg3(strategy, relational_dict, prev(ranked_features), t, f), "str") for t in range(0, len(prev(ranked_features)) + 1))'),
            ('prefix_cells', 'len(ranked_features) == len(prev(ranked_features)) + 1 and '
                             'all(ranked_features[i] == prev(ranked_features)[i] for i in range(len(prev(ranked_features))))'),
        ]},
        requires=[('nonempty', 'len(relevance_dict) >= 1')],
        returns={'__class__': 'ColumnsFrame'},
        ensures=[
            ('every_feature_once', 'len(result["Feature"]) == len(relevance_dict) and '
                                   'all(result["Feature"][i] in relevance_dict for i in range(len(result["Feature"]))) and '
                                   'all(result["Feature"][i] != result["Feature"][j] for j in range(len(result["Feature"])) for i in range(j))'),
            ('starts_with_max_relevance', 'forall(lambda f: implies(f in relevance_dict, relevance_dict[f] <= relevance_dict[result["Feature"][0]]), "str")'),
            ('greedy_optimal', 'all(forall(lambda f: implies((f in relevance_dict) and not (f in result["Feature"][:t]), '
                               + '(relevance_dict[f] - alpha * agg3(strategy, redundancy_dict, result["Feature"], t, f) + beta * agg3(strategy, relational_dict, result["Feature"], t, f)) <= (relevance_dict[result["Feature"][t]] - alpha * agg3(strategy, redundancy_dict, result["Feature"], t, result["Feature"][t]) + beta * agg3(strategy, relational_dict, result["Feature"], t, result["Feature"][t]))), "str") '
                               'for t in range(1, len(result["Feature"])))'),
            ('ranks_1_to_n', 'len(result["3MR_Ranking"]) == len(result["Feature"]) and '
                             'all(result["3MR_Ranking"][t] == t + 1 for t in range(len(result["Feature"])))'),
        ],
        loops={
            1: dict(inv=[
                ('size', 'len(ranked_features) >= 1 and len(ranked_features) <= len(all_features) and len(all_features) == len(relevance_dict)'),
                ('universe', 'forall(lambda f: (f in all_features) == (f in relevance_dict), "str")'),
                ('members', 'all(ranked_features[i] in relevance_dict for i in range(len(ranked_features)))'),
                ('distinct', 'all(ranked_features[i] != ranked_features[j] for j in range(len(ranked_features)) for i in range(j))'),
                ('first', 'forall(lambda f: implies(f in relevance_dict, relevance_dict[f] <= relevance_dict[ranked_features[0]]), "str")'),
                ('greedy', 'all(forall(lambda f: implies((f in relevance_dict) and not (f in ranked_features[:t]), '
                           '(relevance_dict[f] - alpha * agg3(strategy, redundancy_dict, ranked_features, t, f) + beta * agg3(strategy, relational_dict, ranked_features, t, f)) <= (relevance_dict[ranked_features[t]] - alpha * agg3(strategy, redundancy_dict, ranked_features, t, ranked_features[t]) + beta * agg3(strategy, relational_dict, ranked_features, t, ranked_features[t]))), "str") '
                           'for t in range(1, len(ranked_features)))'),
            ], decreases='len(all_features) - len(ranked_features)'),
            2: dict(index='k', inv=[
                ('start', 'implies(k == 0, is_neg_inf(top_importance) and most_important_feature is None)'),
                ('best_some', 'implies(k >= 1, (most_important_feature is not None) and finite(top_importance))'),
                ('best_member', 'implies(k >= 1, any(some(most_important_feature) == k_seq[i] for i in range(k)))'),
                ('best_value', 'implies(k >= 1, top_importance == (relevance_dict[some(most_important_feature)] - alpha * agg3(strategy, redundancy_dict, ranked_features, len(ranked_features), some(most_important_feature)) + beta * agg3(strategy, relational_dict, ranked_features, len(ranked_features), some(most_important_feature))))'),
                ('best_bound', 'implies(k >= 1, all((relevance_dict[k_seq[i]] - alpha * agg3(strategy, redundancy_dict, ranked_features, len(ranked_features), k_seq[i]) + beta * agg3(strategy, relational_dict, ranked_features, len(ranked_features), k_seq[i])) <= top_importance for i in range(k)))'),
            ]),
        },
    ),
}
