"""Contracts for outrank/algorithms/importance_estimator.py (C03, C05, C09, C17)."""
MODULE = 'outrank/algorithms/importance_estimator.py'

_G = {'g_fv': 'g_fv', 'g_fc': 'g_fc', 'g_cv': 'g_cv', 'g_cc': 'g_cc', 'g_eff': 'g_eff', 'g_sx': 'g_sx', 'g_sy': 'g_sy'}

CONTRACTS = {
    'numba_mi': dict(
        params={'vector_first': 'int64[:]', 'vector_second': 'int64[:]', 'heuristic': 'str',
                'mi_stratified_sampling_ratio': 'real'},
        requires=[
            ('lens', 'len(vector_first) == len(vector_second) and len(vector_first) >= 1 and len(vector_first) <= 10**6'),
            ('codes_first', 'all(0 <= vector_first[i] and vector_first[i] < 2**20 for i in range(len(vector_first)))'),
            ('codes_second', 'all(0 <= vector_second[i] and vector_second[i] < 2**20 for i in range(len(vector_second)))'),
            ('ratio', '0 < mi_stratified_sampling_ratio and mi_stratified_sampling_ratio <= 1'),
        ],
        returns='real',
        call_ghosts={'mutual_info_estimator_numba': _G},
        ghost_out={'g_fv': 'int32[:]', 'g_fc': 'int32[:]', 'g_cv': 'int32[:]', 'g_cc': 'int32[:]', 'g_eff': 'bool'},
        ensures=[
            # heuristic name -> correction flag; the feature is the first vector, the conditioning target the second
            ('flag', 'g_eff == (heuristic == "MI-numba-randomized" and not all(vector_first[i] == vector_second[i] '
                     'for i in range(len(vector_first))))'),
            ('x_support', 'len(g_fv) == len(g_fc) and all(g_fc[k] == cnt(vector_second, g_fv[k], len(vector_second)) '
                          'and g_fc[k] > 0 for k in range(len(g_fv)))'),
            ('plain', 'implies(mi_stratified_sampling_ratio == 1 and not g_eff, result == '
                      'entsum(g_cc, len(vector_second), len(g_cv)) - condsum_ns(vector_second, vector_first, g_fv, g_fc, '
                      'len(vector_second), g_cv, len(g_fv)))'),
            ('corrected', 'implies(mi_stratified_sampling_ratio == 1 and g_eff, result == '
                          'condsum_bg_ns(vector_second, vector_first, g_fv, g_fc, len(vector_second), g_cv, len(g_fv)) '
                          '- condsum_ns(vector_second, vector_first, g_fv, g_fc, len(vector_second), g_cv, len(g_fv)))'),
        ],
        assumptions=['np.float32(ratio) is the ratio itself (single-precision rounding of the ratio ignored)',
                     '1-D inputs: vector_first.shape[1] raises IndexError, which the bare except swallows (modelled)'],
    ),
}
