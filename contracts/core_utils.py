"""Contracts for outrank/core_utils.py (C16, C13, C05 helpers)."""
MODULE = 'outrank/core_utils.py'

CONTRACTS = {
    'is_prior_heuristic': dict(
        strings='opaque',
        params={'args': {'__class__': 'args', 'heuristic': 'str', 'reference_model_JSON': 'str'}},
        returns='bool',
        pure='(args.heuristic == "surrogate-SGD" or args.heuristic == "surrogate-SVM" or args.heuristic == "surrogate-SGD-RP") '
             'and args.reference_model_JSON != ""',
    ),
}
