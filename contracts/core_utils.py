"""Contracts for outrank/core_utils.py (C16, C13, C05 helpers)."""
MODULE = 'outrank/core_utils.py'

CONTRACTS = {
    'is_prior_heuristic': dict(
        strings='opaque',
        params={'args': {'__class__': 'args', 'heuristic': 'str', 'reference_model_JSON': 'str'}},
        returns='bool',
        pure='(args.heuristic == "surrogate-SGD" or args.heuristic == "surrogate-SVM" or args.heuristic == "surrogate-SGD-RP") '
             'and args.reference_model_JSON != ""',
    ),

    # ---------------------------------------------------------------- C16: line parsers
    'parse_ob_line': dict(
        strings='opaque',
        params={'line_string': 'str', 'delimiter': 'str', 'args': {'__class__': 'args'}},
        returns='list[str]',
        function_symbol='fn_parse_ob_line', function_args=['line_string', 'delimiter'],
        ensures=[
            # for every field list (no field contains the delimiter or a line break; any field may be empty) and every
            # line terminator: parsing the rendered line gives exactly the fields, in order
            ('exactly_the_fields_in_order',
             'forall(lambda fields, terminator: implies('
             'old(line_string) == tsv_line(fields, delimiter, terminator) and '
             '(terminator == "\\n" or terminator == "\\r\\n" or terminator == "") and len(fields) >= 1 and '
             'not ("\\n" in delimiter) and not ("\\r" in delimiter) and '
             'all(not (delimiter in fields[i]) and not ("\\n" in fields[i]) and not ("\\r" in fields[i]) for i in range(len(fields))), '
             'len(result) == len(fields) and all(result[i] == fields[i] for i in range(len(fields)))), "list[str]", "str")'),
        ],
    ),
    'parse_ob_csv_line': dict(
        strings='opaque',
        params={'line_string': 'str', 'delimiter': 'str', 'args': {'__class__': 'args'}},
        returns='list[str]',
        function_symbol='fn_parse_ob_csv_line', function_args=['line_string'],
        ensures=[('first_record_of_the_csv_reader_unmodified', 'same_seq(result, csv_parse(line_string))')],
    ),
    'parse_ob_line_vw': dict(
        external=True, strings='opaque', param_names=['line_string', 'delimiter', 'args', 'fw_col_mapping', 'table_header'],
        params={}, returns='list[str]', function_symbol='fn_parse_ob_line_vw',
        function_args=['line_string', 'fw_col_mapping', 'table_header'], requires=[],
    ),
    'generic_line_parser': dict(
        strings='opaque',
        params={'line_string': 'str', 'delimiter': 'str', 'args': {'__class__': 'args', 'data_source': 'str'},
                'fw_col_mapping': 'FwMap', 'table_header': 'list[str]'},
        may_raise=['NotImplementedError'],
        returns='list[str]',
        function_symbol='fn_generic_line_parser',
        function_args=['line_string', 'delimiter', 'args.data_source', 'fw_col_mapping', 'table_header'],
        call_ghosts={},
        ensures=[
            ('csv_sources', 'implies(args.data_source == "ob-csv" or args.data_source == "csv-raw", same_seq(result, csv_parse(line_string)))'),
            ('tsv_source', 'implies(args.data_source == "ob-raw-dump", same_seq(result, fn_list("fn_parse_ob_line", line_string, delimiter)))'),
            ('vw_source', 'implies(args.data_source == "ob-vw", same_seq(result, fn_list("fn_parse_ob_line_vw", line_string, fw_col_mapping, table_header)))'),
            ('supported_only', 'args.data_source == "ob-raw-dump" or args.data_source == "ob-vw" or args.data_source == "ob-csv" '
                               'or args.data_source == "csv-raw"'),
        ],
        raises_ensures={'NotImplementedError': [
            ('only_for_unknown_sources', 'not (args.data_source == "ob-raw-dump" or args.data_source == "ob-vw" or '
                                         'args.data_source == "ob-csv" or args.data_source == "csv-raw")')]},
    ),
}
