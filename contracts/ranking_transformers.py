"""Contracts for outrank/feature_transformations/ranking_transformers.py (C12, C11)."""
MODULE = 'outrank/feature_transformations/ranking_transformers.py'

CONTRACTS = {
    'FeatureTransformerGeneric.__init__': dict(
        strings='opaque',
        params={'self': {'__class__': 'FeatureTransformerGeneric'}, 'numeric_column_names': 'set[str]', 'preset': 'str'},
        modifies=['param:self'],
        attr_kinds={'transformer_collection': 'PresetDict'},
        may_raise=['NotImplementedError'],
        ensures=[
            # the selected collection is the union of the listed presets (unknown names contribute nothing; later presets win)
            ('union_of_presets', 'forall(lambda k: pd_has(self.transformer_collection, k) == any(vault_has(split_part(preset, ",", j), k) '
                                 'for j in range(split_count(preset, ","))), "str")'),
            ('later_preset_wins', 'forall(lambda k: all(implies(vault_has(split_part(preset, ",", j), k) and '
                                  'all(not vault_has(split_part(preset, ",", j2), k) for j2 in range(j + 1, split_count(preset, ","))), '
                                  'pd_val(self.transformer_collection, k) == vault_val(split_part(preset, ",", j), k)) '
                                  'for j in range(split_count(preset, ","))), "str")'),
        ],
        loops={1: dict(index='i', inv=[
            ('union', 'forall(lambda k: pd_has(self.transformer_collection, k) == any(vault_has(split_part(preset, ",", j), k) '
                      'for j in range(i)), "str")'),
            ('last_wins', 'forall(lambda k: all(implies(vault_has(split_part(preset, ",", j), k) and '
                          'all(not vault_has(split_part(preset, ",", j2), k) for j2 in range(j + 1, i)), '
                          'pd_val(self.transformer_collection, k) == vault_val(split_part(preset, ",", j), k)) for j in range(i)), "str")'),
        ])},
    ),
    'FeatureTransformerGeneric.get_vals': dict(
        strings='opaque',
        params={'self': {'__class__': 'FeatureTransformerGeneric'},
                'tmp_df': {'__class__': 'DataFrame', 'columns': 'list[str]', 'nrows': 'int', 'data': 'FrameData', 'cells': 'const:"str"'},
                'col_name': 'str'},
        requires=[('column', 'col_name in tmp_df.columns'), ('rows', 'tmp_df.nrows >= 0')],
        returns='float64[:]',
        ensures=[
            ('one_value_per_row', 'len(result) == tmp_df.nrows'),
            ('empty_is_zero', 'all(implies(len(str_replace(tmp_df[col_name].values[i], "\\"", "")) == 0, result[i] == 0) '
                              'for i in range(tmp_df.nrows))'),
            ('numeric_parse', 'all(implies(len(str_replace(tmp_df[col_name].values[i], "\\"", "")) != 0, '
                              'result[i] == parse_float(str_replace(tmp_df[col_name].values[i], "\\"", ""))) for i in range(tmp_df.nrows))'),
        ],
    ),
}
