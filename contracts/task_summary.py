"""Contracts for outrank/task_summary.py (C18)."""
MODULE = 'outrank/task_summary.py'
FRAME3 = {'__class__': 'Frame3', 'A': 'list[str]', 'B': 'list[str]', 'S': 'list[real]'}
_SEL = '(label_column == name_prefix(triplets.A[{i}]) or label_column == name_prefix(triplets.B[{i}]))'
_ENTRY_NAME = 'ite(label_column == name_prefix(triplets.A[{i}]), triplets.B[{i}], triplets.A[{i}])'

CONTRACTS = {
    'generate_final_ranking': dict(
        strings='opaque',
        params={'triplets': FRAME3, 'label_column': 'str'},
        row_fields=['FeatureA', 'FeatureB', 'Score'],
        local_kinds={'final_ranking': 'list[tuple[str,real]]'},
        lemmas=['selcnt_mono'],
        requires=[('aligned', 'len(triplets.A) == len(triplets.B) and len(triplets.A) == len(triplets.S)')],
        returns='list[tuple[str,real]]',
        ensures=[
            ('exactly_the_label_rows', 'len(result) == selcnt(label_column, triplets, len(triplets.A))'),
            ('in_order_with_the_other_name_and_score',
             'all(implies(' + _SEL.format(i='i') + ', result[selcnt(label_column, triplets, i)][0] == ' + _ENTRY_NAME.format(i='i')
             + ' and result[selcnt(label_column, triplets, i)][1] == triplets.S[i]) for i in range(len(triplets.A)))'),
        ],
        loops={1: dict(index='k', inv=[
            ('count', 'len(final_ranking) == selcnt(label_column, triplets, k)'),
            ('entries', 'all(implies(' + _SEL.format(i='i') + ', final_ranking[selcnt(label_column, triplets, i)][0] == '
                        + _ENTRY_NAME.format(i='i') + ' and final_ranking[selcnt(label_column, triplets, i)][1] == triplets.S[i]) for i in range(k))'),
        ])},
    ),
    'create_final_dataframe': dict(
        strings='opaque',
        params={'final_ranking': 'list[tuple[str,real]]', 'heuristic': 'str'},
        requires=[
            ('nonempty', 'len(final_ranking) >= 1'),
            ('mi_scores_not_all_equal', 'implies("MI" in heuristic, any(median_of(final_ranking, final_ranking[i][0]) != '
                                        'median_of(final_ranking, final_ranking[j][0]) for i in range(len(final_ranking)) for j in range(len(final_ranking))))'),
        ],
        returns={'__class__': 'Table'},
        ensures=[
            ('each_feature_exactly_once', 'all(result["Feature"][i] != result["Feature"][j] for j in range(len(result["Feature"])) for i in range(j)) and '
                                          'all(any(result["Feature"][i] == final_ranking[r][0] for r in range(len(final_ranking))) for i in range(len(result["Feature"]))) and '
                                          'all(any(result["Feature"][i] == final_ranking[r][0] for i in range(len(result["Feature"]))) for r in range(len(final_ranking)))'),
            ('descending', 'all(result["Score"][i] >= result["Score"][j] for j in range(len(result["Score"])) for i in range(j))'),
            ('median_of_label_scores', 'implies(not ("MI" in heuristic), all(result["Score"][i] == median_of(final_ranking, result["Feature"][i]) '
                                       'for i in range(len(result["Feature"]))))'),
            ('mi_best_is_one_worst_is_zero', 'implies("MI" in heuristic, result["Score"][0] == 1 and result["Score"][len(result["Score"]) - 1] == 0)'),
            ('mi_order_is_the_median_order', 'implies("MI" in heuristic, all(implies(median_of(final_ranking, result["Feature"][i]) > '
                                             'median_of(final_ranking, result["Feature"][j]), result["Score"][i] > result["Score"][j]) '
                                             'for i in range(len(result["Feature"])) for j in range(len(result["Feature"]))))'),
        ],
    ),
}
