"""./check <Cxx> --replay <file>: re-run a recorded violation against the CURRENT tree.

A replay file names the failed obligation and carries the witness (an input found by the executable contract on the real code)
or, when the verifier gave no input, the solver output.  Replaying means: regenerate the same deterministic inputs (tier and
seed are stored in the file) on the real code and evaluate the same clause again; for an input-less deductive refutation the
named obligation is regenerated from the current source and discharged again.
exit 1 + VIOLATION line if the violation reproduces, 0 if it does not (or cannot be decided), 3 on checker errors."""
from __future__ import annotations

import importlib
import json
import os
import sys

from . import frontend, run, solve


def main(pid, path):
    with open(path) as fh:
        d = json.load(fh)
    ob_name = d.get('obligation', '')
    print(f'REPLAY property={pid} obligation={ob_name} tree={frontend.repo_root()}')
    w = d.get('witness')
    clause = w.get('clause') if isinstance(w, dict) else None
    tier, seed = d.get('tier', 'quick'), int(d.get('seed', 0) or 0)
    if clause:
        native = run.run_native(pid, tier, seed)
        if not native or 'error' in native:
            print(f'CHECKER-ERROR property={pid} native harness: {(native or {}).get("error", "missing")[:300]}')
            return 3
        hits = [f for f in native.get('failures', []) if f.get('clause') == clause]
        if hits:
            print(f'REPRODUCED clause `{clause}` fails again on the real code: {hits[0].get("detail", "")[:300]}')
            print('witness: ' + json.dumps(hits[0].get('witness'))[:1500])
            print(f'VIOLATION property={pid} replay={os.path.abspath(path)} obligation=native:{clause}')
            return 1
        print(f'NOT-REPRODUCED clause `{clause}` holds on every input of the recorded scope (tier {tier}, seed {seed}); recorded witness: '
              + json.dumps(w.get('witness'))[:600])
        return 0
    # a deductive refutation without an input: discharge the named obligation again on the current source
    import contracts
    reg = contracts.load_all()
    prop = importlib.import_module(f'props.{pid}')
    obligations, _, unbound, _, _ = run.generate(pid, prop, reg)
    todo = [o for o in obligations if o.name == ob_name]
    if not todo:
        print(f'NOT-REPRODUCED the obligation is no longer generated from the current source (unbound: {[u["function"] for u in unbound]})')
        return 0
    res = solve.discharge(todo, timeout_s=120)[0]
    print(f'verdict on the current tree: {res.status} ({res.backend}, {res.seconds:.1f}s)')
    if res.status == 'refuted':
        print(f'VIOLATION property={pid} replay={os.path.abspath(path)} obligation={ob_name} no-failing-input-found')
        return 1
    return 0
