"""Discharge obligations: one SMT query per obligation over a process pool.

Primary back end: z3 5.1 (python API, query shipped to the worker as SMT-LIB text).  `unknown` goes to the
z3 4.8.12 and cvc5 binaries.  Verdicts: proved (unsat) / refuted (sat, with model text) / unknown.
"""
from __future__ import annotations

import multiprocessing as mp
import os
import subprocess
import tempfile
import time

import z3

from . import speclib


def decl_names(fs):
    seen, names, stack = set(), set(), list(fs)
    while stack:
        x = stack.pop()
        if x.get_id() in seen:
            continue
        seen.add(x.get_id())
        if z3.is_app(x):
            if x.decl().kind() == z3.Z3_OP_UNINTERPRETED:
                names.add(x.decl().name())
            stack.extend(x.children())
        elif z3.is_quantifier(x):
            stack.append(x.body())
    return names


def relevant_axioms(formulas, lemma_names=(), unfold=()):
    """Definitional axioms (and used lemma statements) whose symbols occur in the query, to a fixpoint."""
    names = decl_names(formulas)
    chosen, out = set(), []
    pool = [(n, f, d) for n, f, d in speclib.AXIOMS]
    changed = True
    lem = [(n, speclib.LEMMAS[n]['statement']) for n in lemma_names]
    for n, f in lem:
        names |= decl_names([f])
    while changed:
        changed = False
        for n, f, d in pool:
            if n in speclib.OPAQUE_DEFS and d not in unfold:
                continue
            if n not in chosen and d in names:
                chosen.add(n)
                out.append((n, f))
                new = decl_names([f]) - names
                if new:
                    names |= new
                changed = True
    return out + lem


def to_smt2(ob, lemma_names=(), extra=()):
    s = z3.Solver()
    fs = list(ob.assumptions) + [ob.goal] + list(extra)
    if not ob.assumptions and not extra and (z3.is_true(ob.goal) or z3.is_false(ob.goal)):
        lemma_names = ()      # a syntactic obligation (constant goal): quantified lemma statements would only blur a definite verdict
    ax = relevant_axioms(fs, lemma_names, getattr(ob, 'unfold', ()))
    for _, f in ax:
        s.add(f)
    for f in extra:
        s.add(f)
    # distinct opaque string literals denote distinct strings
    from . import sym as _sym
    lits = [c for n_, c in _sym.LITERALS.items()]
    used = [c for c in lits if c.decl().name() in decl_names(fs)]
    if len(used) > 1:
        s.add(z3.Distinct(*used))
    if used:
        e_ = _sym.LITERALS.get('')
        for c in used:
            # pstr_len of a literal is its length; "x in x"; containment of literals is decided concretely
            s.add(_sym.PLEN(c) == len(next(k for k, v in _sym.LITERALS.items() if v.eq(c))))
        for c1 in used:
            for c2 in used:
                k1 = next(k for k, v in _sym.LITERALS.items() if v.eq(c1))
                k2 = next(k for k, v in _sym.LITERALS.items() if v.eq(c2))
                s.add(_sym.PCONTAINS(c1, c2) == (k2 in k1))
    for a in ob.assumptions:
        s.add(a)
    if ob.expect == 'unsat':
        s.add(z3.Not(ob.goal))
    return s.to_smt2(), [n for n, _ in ax]


COVER_MS = 12000

Z3_STRATEGIES = (
    # (name, binary, options, share of the budget, accept `sat` as a refutation?)
    ('z3-5.1.0[ematch,arith2]', 'z3-new', ['smt.mbqi=false', 'smt.arith.solver=2'], 0.15, False),
    ('z3-5.1.0[ematch]', 'z3-new', ['smt.mbqi=false'], 0.15, False),
    ('z3-4.8.12', '/usr/bin/z3', [], 0.2, True),
    ('z3-5.1.0', 'z3-new', [], 0.5, True),
)


def _solve_z3(args):
    """Portfolio over z3 5.1 option sets and z3 4.8.12 (CLI, hard -T limits).  unsat from any member is a proof; sat
    is only accepted from members that run with MBQI (without it "sat" just means no more instances)."""
    text, timeout_ms, want_model = args[:3]
    hint = args[3] if len(args) > 3 else None
    t0 = time.time()
    with tempfile.NamedTemporaryFile('w', suffix='.smt2', delete=False) as fh:
        fh.write(text)
        if want_model:
            fh.write('\n(get-model)\n')
        path = fh.name
    try:
        last = ('unknown', '', 'timeout')
        if hint == 'cvc5':
            # performance hint only: cvc5 decided this obligation last time (string-theory lemmas), try it first
            r, secs = _solve_cli(text, 'cvc5', max(1, timeout_ms * 0.5 / 1000))
            if r == 'unsat':
                return 'unsat', time.time() - t0, '', 'cvc5'
        order = sorted(Z3_STRATEGIES, key=lambda s_: 0 if s_[0] == hint else 1)     # performance hint only (which member proved it last time)
        for name, binary, opts, share, accept_sat in order:
            # the member that decided this obligation last time gets half of the budget (head-room for busy cores)
            tl = max(1, int(timeout_ms * (max(share, 0.5) if name == hint else share) / 1000))
            try:
                p = subprocess.run([binary, f'-T:{tl}', *opts, path], capture_output=True, text=True, timeout=tl + 10)
            except subprocess.TimeoutExpired:
                continue
            out = (p.stdout or '').strip()
            first = out.splitlines()[0].strip() if out else 'unknown'
            if first == 'unsat':
                return 'unsat', time.time() - t0, '', name
            if first == 'sat' and accept_sat:
                return 'sat', time.time() - t0, out[3:20000], name
            last = ('unknown', '', first)
        return last[0], time.time() - t0, '', last[2]
    except Exception as e:
        return 'error', time.time() - t0, '', repr(e)
    finally:
        os.unlink(path)


def _solve_cli(text, tool, timeout_s):
    with tempfile.NamedTemporaryFile('w', suffix='.smt2', delete=False) as fh:
        fh.write(text)
        path = fh.name
    t0 = time.time()
    try:
        if tool == 'z3-old':
            cmd = ['/usr/bin/z3', f'-T:{int(timeout_s)}', path]
        elif tool == 'cvc5':
            cmd = ['/usr/bin/cvc5', '--strings-exp', f'--tlimit={int(timeout_s * 1000)}', path]
        else:
            raise ValueError(tool)
        p = subprocess.run(cmd, capture_output=True, text=True, timeout=timeout_s + 5)
        out = (p.stdout or '').strip().splitlines()
        r = out[0].strip() if out else 'unknown'
        if r not in ('sat', 'unsat'):
            r = 'unknown'
        return r, time.time() - t0
    except Exception:
        return 'unknown', time.time() - t0
    finally:
        os.unlink(path)


def _solve_fallback(args):
    text, timeout_s = args
    for tool in ('cvc5',):
        r, t = _solve_cli(text, tool, timeout_s)
        if r in ('sat', 'unsat'):
            return r, t, tool
    return 'unknown', 0.0, ''


HINTS_FILE = os.path.join(os.path.dirname(os.path.dirname(os.path.abspath(__file__))), 'solver_hints.json')


def _load_hints():
    try:
        import json
        with open(HINTS_FILE) as fh:
            return json.load(fh)
    except Exception:
        return {}


def _hint_key(name):
    """obligation name without the property prefix: the same function is verified under several properties (callee closure)"""
    return name.split('/', 1)[1] if '/' in name else name


def save_hints(results):
    """remember which portfolio member proved each obligation (ordering hint for the next run; no effect on verdicts)."""
    import json
    h = _load_hints()
    for r in results:
        if r.status == 'proved' and not r.backend.startswith('z3-5.1.0[ematch,arith2]'):
            h[_hint_key(r.ob.name)] = r.backend
        elif r.status == 'proved':
            h.pop(_hint_key(r.ob.name), None)
    with open(HINTS_FILE, 'w') as fh:
        json.dump(dict(sorted(h.items())), fh, indent=0)


class Result:
    def __init__(self, ob, status, backend, seconds, model='', reason='', axioms=()):
        self.ob = ob
        self.status = status      # proved | refuted | unknown | reachable | vacuous | error
        self.backend = backend
        self.seconds = seconds
        self.model = model
        self.reason = reason
        self.axioms = list(axioms)


def discharge(obligations, lemma_map=None, timeout_s=10, procs=None, fallback=True):
    """lemma_map: obligation name prefix -> lemma names usable by it (from the contract's `lemmas`)."""
    procs = procs or min(16, os.cpu_count() or 4)
    texts = []
    for ob in obligations:
        lem = getattr(ob, 'lemmas', ()) or ()
        text, ax = to_smt2(ob, lem)
        texts.append((text, ax))
    hints = _load_hints()
    # covers (reachability / vacuity guards) look for `unsat` = contradictory context: they get a real budget, because an
    # inconsistent context that is only found after a second or two would otherwise pass as "probably reachable"
    jobs = [(t, int(timeout_s * 1000) if ob.kind == 'vc' else COVER_MS, ob.expect == 'unsat', hints.get(_hint_key(ob.name)))
            for (t, _), ob in zip(texts, obligations)]
    from multiprocessing.pool import ThreadPool
    with ThreadPool(procs) as pool:
        raw = pool.map(_solve_z3, jobs, chunksize=1)
        results = []
        retry = []
        for ob, (text, ax), (r, secs, model, reason) in zip(obligations, texts, raw):
            res = Result(ob, r, reason if r in ('unsat', 'sat') else 'z3-5.1.0', secs, model, reason if r not in ('unsat', 'sat') else '', ax)
            results.append(res)
            if r in ('unknown', 'error') and fallback and ob.kind == 'vc':
                retry.append((len(results) - 1, text))
        if retry:
            fb = pool.map(_solve_fallback, [(t, timeout_s) for _, t in retry], chunksize=1)
            for (idx, _), (r, secs, tool) in zip(retry, fb):
                if r in ('sat', 'unsat'):
                    results[idx].status = r
                    results[idx].backend = tool
                    results[idx].seconds += secs
    for res in results:
        if res.ob.expect == 'unsat':
            res.status = {'unsat': 'proved', 'sat': 'refuted'}.get(res.status, 'unknown' if res.status != 'error' else 'error')
        else:
            res.status = {'sat': 'reachable', 'unsat': 'vacuous'}.get(res.status, 'reachable?')
    return results
