"""Symbolic executor / verification-condition generator over the real Python AST.

Floyd-style: function entry, loop heads (sidecar invariants) and exits are cut points; acyclic
segments are executed symbolically with path splitting.  Calls to functions under contract use the
callee's contract only.  Library calls use stubs (pyvc.stubs) = the trusted base.
"""
from __future__ import annotations

import ast
import copy
import os
import sys

import z3

from . import frontend, sym
from .sym import (DTYPE_RANGE, EngineError, V, VBool, VDict, VFunc, VInt, VMat, VModule, VNone, VObj, VOpaque, VOpt,
                  VReal, VSeq, VSet, VStr, VTuple, fresh_name, fresh_value, from_term, is_concrete_false,
                  is_concrete_true, parse_kind, sort_of, to_term)


def _hard_term(t, budget=400):
    """does the arithmetic term truncate (to_int), divide, or multiply two non-constant factors?"""
    stack, seen = [t], 0
    while stack and seen < budget:
        x = stack.pop()
        seen += 1
        if not z3.is_app(x):
            continue
        k = x.decl().kind()
        if k in (z3.Z3_OP_TO_INT, z3.Z3_OP_IDIV, z3.Z3_OP_DIV, z3.Z3_OP_MOD, z3.Z3_OP_REM):
            return True
        if k == z3.Z3_OP_MUL and sum(1 for a in x.children() if not (z3.is_int_value(a) or z3.is_rational_value(a))) >= 2:
            return True
        stack.extend(x.children())
    return False


class Obligation:
    def __init__(self, name, assumptions, goal, kind='vc', expect='unsat', text=''):
        self.name = name
        self.assumptions = assumptions
        self.goal = goal
        self.kind = kind          # vc | cover
        self.expect = expect      # 'unsat' (goal valid) or 'sat' (reachability / vacuity guard)
        self.text = text
        self.axioms = []


class State:
    def __init__(self):
        self.env = {}
        self.glob = {}
        self.old = {}
        self.pc = []
        self.guards = []
        self.ghost_idx = {}
        self.trail = []           # branch decisions, for path names

    def clone(self):
        n = State()
        memo = {}
        n.env = copy.deepcopy(self.env, memo)
        n.glob = copy.deepcopy(self.glob, memo)
        n.old = copy.deepcopy(self.old, memo)
        n.ghost_idx = copy.deepcopy(self.ghost_idx, memo)
        n.pc = list(self.pc)
        n.guards = list(self.guards)
        n.trail = list(self.trail)
        return n

    def lookup(self, name):
        if name in self.env:
            return self.env[name]
        if name in self.glob:
            return self.glob[name]
        return None


class PyRaise(Exception):
    """A definite Python exception raised by the evaluated code (e.g. concrete tuple index out of range)."""

    def __init__(self, exc):
        super().__init__(exc)
        self.exc = exc


class Signal:
    def __init__(self, kind, value=None):
        self.kind = kind
        self.value = value


INERT_DEFAULT = ('pbar', 'local_pbar', 'logger', 'logging', 'traceback')
MUTATORS = {'append', 'add', 'update', 'remove', 'insert', 'pop', 'extend', 'appendleft', 'clear', 'discard',
            'sort', 'setdefault'}


class Interp:
    def __init__(self, registry, prop_id='C00'):
        self.registry = registry          # name -> contract dict
        self.prop_id = prop_id
        self.obligations = []
        self.axioms = []                  # (name, formula)
        self.occ = {}
        self.cur = None                   # contract being verified
        self.fn = None
        self.loop_ord = {}
        self.spec_mode = 0
        self.trusted = set()              # stub names used
        self.applied = set()              # keys of the callee contracts this function's verification relied on
        self.bound = []                   # z3 constants currently bound by an enclosing quantifier / comprehension
        self.dropped = []
        from . import stubs, speclib
        self.stubs = stubs
        self.speclib = speclib
        speclib.install(self)

    # ------------------------------------------------------------------ obligations / assumptions
    def _uniq(self, base):
        n = self.occ.get(base, 0)
        self.occ[base] = n + 1
        return base if n == 0 else f'{base}#{n + 1}'

    def oname(self, suffix):
        c = self.cur
        return f"{self.prop_id}/{c['module_name']}.{c['qualname']}/{suffix}"

    def oblige(self, st, suffix, goal, text='', unique=True):
        if any(z3.is_false(g_) for g_ in st.guards):
            return
        if isinstance(goal, VBool):
            goal = goal.t
        g = z3.simplify(goal)
        if z3.is_true(g):
            return
        name = self.oname(suffix)
        if unique:
            name = self._uniq(name)
        self.obligations.append(Obligation(name, list(st.pc) + list(st.guards), goal, text=text))
        if not st.guards:
            st.pc.append(goal)

    def assume(self, st, fact):
        if isinstance(fact, VBool):
            fact = fact.t
        if st.guards:
            fact = z3.Implies(z3.And(*st.guards), fact)
        st.pc.append(fact)

    def cover(self, st, suffix):
        name = self._uniq(self.oname('cover.' + suffix))
        self.obligations.append(Obligation(name, list(st.pc), z3.BoolVal(True), kind='cover', expect='sat'))

    def add_axiom(self, name, formula):
        self.axioms.append((name, formula))

    # ------------------------------------------------------------------ entry point
    def verify(self, contract):
        """Generate the obligations of one function under contract."""
        sym.set_scope(contract['key'])
        self.cur = contract
        sym.STRING_MODE[0] = contract.get('strings', 'theory')
        fn = frontend.load_function(contract['module'], contract['qualname'])
        self.fn = fn
        self.dropped.extend(f"{contract['qualname']}: {d}" for d in fn.dropped)
        contract['_sha'] = fn.sha()
        if contract.get('function_symbol') or contract.get('frame'):
            self.check_purity(fn, contract)
        self.check_param_frame(fn, contract)
        loops = frontend.loops_of(fn.node)
        self.loop_ord = {id(n): i + 1 for i, n in enumerate(loops)}
        declared = set((contract.get('loops') or {}).keys())
        if declared - set(range(1, len(loops) + 1)):
            raise EngineError(f"UNBOUND: {contract['qualname']} loop ordinals {declared} but function has {len(loops)} loops")
        st = State()
        self.bind_params(st, fn, contract)
        for name, ks in (contract.get('globals') or {}).items():
            st.glob[name] = self.make_param(name, ks, st)
        for label, expr in contract.get('requires', []):
            self.assume(st, self.spec(st, expr))
        st.old = copy.deepcopy({**st.glob, **st.env})
        # vacuity guard: the pre-condition must be satisfiable
        self.cover(st, 'requires')
        outs = self.exec_block(fn.node.body, st)
        n_ret = 0
        for s, sig in outs:
            if sig is not None and sig.kind == 'raise':
                if contract.get('no_raise', True) and sig.value not in (contract.get('may_raise') or ()):
                    self.oblige(s, f'no_raise[{sig.value}]', z3.BoolVal(False))
                else:
                    self.check_raise_ensures(s, sig.value, contract)
                continue
            if sig is not None and sig.kind in ('break', 'continue'):
                raise EngineError('break/continue outside loop')
            res = sig.value if sig is not None else VNone()
            n_ret += 1
            self.check_ensures(s, res, contract)
        return self.obligations

    def frame_only(self, contract):
        """Only the syntactic frame obligation of a function (used for the callee closure of determinism properties)."""
        sym.set_scope(contract['key'])
        self.cur = contract
        fn = frontend.load_function(contract['module'], contract['qualname'])
        self.fn = fn
        contract['_sha'] = fn.sha()
        self.check_purity(fn, contract)
        return self.obligations

    def check_purity(self, fn, contract):
        """Syntactic frame check behind `function_symbol` / `frame`: the function reads only its parameters and locals:
        no `global`, no RNG / clock / file access, no module-level mutable object, and every same-module callee is
        itself under contract (an uncontracted callee could touch anything)."""
        bad = []
        tree, _ = frontend.load_module(contract['module'])
        mutable_globals, module_funcs = set(), set()
        for n in tree.body:
            if isinstance(n, (ast.FunctionDef, ast.ClassDef)):
                module_funcs.add(n.name)
            tgt = None
            if isinstance(n, ast.Assign) and len(n.targets) == 1 and isinstance(n.targets[0], ast.Name):
                tgt, val = n.targets[0].id, n.value
            elif isinstance(n, ast.AnnAssign) and isinstance(n.target, ast.Name) and n.value is not None:
                tgt, val = n.target.id, n.value
            if tgt is not None:
                if isinstance(val, (ast.Dict, ast.List, ast.Set, ast.ListComp, ast.DictComp, ast.SetComp)) or (
                        isinstance(val, ast.Call) and getattr(val.func, 'id', getattr(val.func, 'attr', '')) in (
                            'dict', 'list', 'set', 'Counter', 'defaultdict', 'deque', 'OrderedDict')):
                    mutable_globals.add(tgt)
        local_names = {a.arg for a in fn.node.args.args} | {a.arg for a in fn.node.args.kwonlyargs}
        for n in ast.walk(fn.node):
            if isinstance(n, (ast.Assign, ast.AugAssign, ast.For, ast.AnnAssign)):
                tg = n.targets if isinstance(n, ast.Assign) else [n.target]
                for t in tg:
                    self._target_names(t, local_names)
        for n in ast.walk(fn.node):
            if isinstance(n, ast.Global):
                bad.append('global ' + ','.join(n.names))
            if isinstance(n, ast.Attribute):
                d = self.dotted(n)
                if d and (d.startswith(('random.', 'np.random.', 'numpy.random.', 'time.', 'os.')) or d in ('random', 'time')):
                    bad.append(d)
            if isinstance(n, ast.Name) and isinstance(n.ctx, ast.Load) and n.id in mutable_globals and n.id not in local_names:
                bad.append(f'module-level mutable object `{n.id}`')
            if isinstance(n, ast.Call) and isinstance(n.func, ast.Name):
                if n.func.id in ('open', 'input', 'timer', 'id'):
                    bad.append(n.func.id)
                if n.func.id in module_funcs and n.func.id not in local_names and self.lookup_contract(n.func.id) is None:
                    bad.append(f'callee `{n.func.id}` is not under contract')
                cc = self.lookup_contract(n.func.id) if n.func.id not in local_names else None
                if cc is not None and not cc.get('external'):
                    self.applied.add(cc['key'])
        name = self.oname('frame.pure')
        self.obligations.append(Obligation(name, [], z3.BoolVal(not bad),
                                           text='reads only parameters and locals (no globals / RNG / clock / files / module-level '
                                                'mutable state / uncontracted callees); found: ' + repr(sorted(set(bad)))))

    def entry_scalars(self, st):
        """Post-conditions speak about the caller's arguments: a scalar parameter (int / real / bool / str - immutable, so only a
        re-assignment inside the body can change what its name denotes) stands for its ENTRY value in `ensures` / `raises_ensures`,
        as in JML / ACSL.  Without this a body that re-assigns a parameter (`value = value[:64]`) would have its post-condition
        checked about the re-assigned value and verify vacuously."""
        declared, rebound, _ = self.param_frame(self.fn, self.cur)
        for a in self.fn.node.args.args + self.fn.node.args.kwonlyargs:
            o = (st.old or {}).get(a.arg)
            c = st.env.get(a.arg)
            if o is None or c is None or c is o:
                continue
            if isinstance(o, (VInt, VReal, VBool, VStr)):
                same = type(c) is type(o) and getattr(c, 't', None) is not None and z3.eq(c.t, o.t) if hasattr(o, 't') else False
                if not same:
                    if os.environ.get('PYVC_TRACE_ENTRY'):
                        print(f'ENTRY-REBIND {self.cur["key"]}: {a.arg}', file=sys.stderr)
                    st.env[a.arg] = o
            elif a.arg in rebound and not any(d[0] == a.arg for d in declared):
                # an object parameter the contract does not list under `modifies` (the `frame.params` obligation checks that the
                # body does not store into it) whose NAME the body re-binds: the post-condition speaks about the caller's object
                if os.environ.get('PYVC_TRACE_ENTRY'):
                    print(f'ENTRY-REBIND(object) {self.cur["key"]}: {a.arg}', file=sys.stderr)
                st.env[a.arg] = o

    _MUTATORS = {'append', 'extend', 'add', 'update', 'pop', 'remove', 'clear', 'sort', 'insert', 'setdefault', 'discard', 'popitem',
                 'reverse', 'fill', 'put', 'itemset', 'resize', 'difference_update', 'intersection_update', 'symmetric_difference_update'}

    def param_frame(self, fn, contract):
        """(declared, rebound, stores): `modifies: param:<name>[.<field>]` entries as (name, field|None); parameter names the body
        re-binds; syntactic stores into parameters (subscript / attribute assignment, `del`, in-place methods) as (name, field, how)."""
        params = {a.arg for a in fn.node.args.args + fn.node.args.kwonlyargs}
        declared = set()
        for m in contract.get('modifies', []) or []:
            if m.startswith('param:'):
                parts = m[6:].replace('[', '.').split('.')
                declared.add((parts[0], parts[1] if len(parts) > 1 and parts[1] else None))
        rebound, stores = set(), []

        def chain(n):
            fields = []
            while isinstance(n, (ast.Subscript, ast.Attribute)):
                if isinstance(n, ast.Attribute):
                    fields.append(n.attr)
                n = n.value
            return (n.id if isinstance(n, ast.Name) else None), (fields[-1] if fields else None)
        for n in ast.walk(fn.node):
            tg = []
            if isinstance(n, ast.Assign):
                tg = n.targets
            elif isinstance(n, (ast.AugAssign, ast.AnnAssign, ast.For)):
                tg = [n.target]
            elif isinstance(n, ast.Delete):
                tg = n.targets
            for t in tg:
                for e in (t.elts if isinstance(t, (ast.Tuple, ast.List)) else [t]):
                    if isinstance(e, ast.Name) and e.id in params:
                        rebound.add(e.id)
                    elif isinstance(e, (ast.Subscript, ast.Attribute)):
                        b, f = chain(e)
                        if b in params:
                            stores.append((b, f, 'store'))
            if isinstance(n, ast.Call) and isinstance(n.func, ast.Attribute) and n.func.attr in self._MUTATORS:
                b, f = chain(n.func.value)
                if b == 'self' and f is None:
                    continue        # a method of the object itself (`self.add(x)`): its effect is the callee contract's `modifies`
                if b in params:
                    stores.append((b, f, n.func.attr + '()'))
        return declared, rebound, stores

    def check_param_frame(self, fn, contract):
        """Syntactic frame obligation: the body stores only into parameters (fields) the contract lists under `modifies`.  Callers
        havoc exactly what `modifies` names, so an undeclared in-place change would be invisible to every caller's proof.  (Stores
        through an alias of a parameter are not seen: stated in DESIGN.)"""
        declared, rebound, stores = self.param_frame(fn, contract)
        bad = []
        for b, f, how in stores:
            if b in rebound:
                continue        # after a re-binding the name may denote a local object: not decided syntactically
            if (b, None) in declared or (f is not None and (b, f) in declared):
                continue
            bad.append(f'{b}{"." + f if f else ""}: {how}')
        self.obligations.append(Obligation(self.oname('frame.params'), [], z3.BoolVal(not bad),
                                           text='stores only into parameters listed under modifies; found: ' + repr(sorted(set(bad)))))

    def check_ensures(self, st, res, contract):
        res = self.coerce_result(res, contract.get('returns'))
        st.env['result'] = res
        for gname, local in (contract.get('ghost_bind') or {}).items():
            st.env[gname] = self.spec(st, local, raw=True)       # ghosts bound to locals see the exit state
        self.entry_scalars(st)
        for gname, ks in (contract.get('ghost_out') or {}).items():
            if gname not in st.env:
                # ghost output not produced on this path: arbitrary
                st.env[gname] = self.make_param(gname, ks, st)
        pathtag = ''.join(st.trail)
        self.cover(st, 'exit' + (f'[{pathtag}]' if pathtag else ''))
        for label, expr in contract.get('ensures', []):
            goal = self.spec(st, expr)
            self.oblige(st, f'ensures.{label}', goal, text=expr, unique=True)
        if os.environ.get('PYVC_CANARY'):
            # self-test: `False` at every exit must NOT be provable (else the path's assumptions are contradictory)
            self.oblige(st, 'canary.exit', z3.BoolVal(False), text='canary (must not be provable)')

    def coerce_result(self, res, rk):
        """Give kind-less empty containers (`[]`, `{}`) the element kind declared by the contract."""
        if rk is None:
            return res
        if isinstance(rk, (list, tuple)) and isinstance(res, VTuple):
            return VTuple([self.coerce_result(x, k) for x, k in zip(res.items, rk)])
        if isinstance(res, VSeq) and res.arr is None and isinstance(rk, str):
            k = parse_kind(rk)
            if isinstance(k, tuple) and k[0] in ('list', 'array'):
                return VSeq(k[1], res.length, z3.Array(fresh_name('empty'), z3.IntSort(), sort_of(k[1])), flavor=res.flavor)
        return res

    def check_raise_ensures(self, st, exc, contract):
        self.entry_scalars(st)
        for label, expr in (contract.get('raises_ensures') or {}).get(exc, []):
            self.oblige(st, f'raises[{exc}].{label}', self.spec(st, expr), text=expr)

    def bind_params(self, st, fn, contract):
        params = contract.get('params') or {}
        for a in fn.node.args.args + fn.node.args.kwonlyargs:
            if a.arg not in params:
                raise EngineError(f"UNBOUND: parameter {a.arg} of {contract['qualname']} has no kind in the contract")
            st.env[a.arg] = self.make_param(a.arg, params[a.arg], st)
        for extra, ks in params.items():
            if extra not in st.env:
                # captured variables of nested functions / ghost parameters
                st.env[extra] = self.make_param(extra, ks, st)

    def make_param(self, name, ks, st):
        if isinstance(ks, dict):            # object with fields
            return VObj(ks.get('__class__', name), {f: self.make_param(f'{name}.{f}', k, st)
                                                     for f, k in ks.items() if f != '__class__'})
        if isinstance(ks, V):
            return ks
        if ks.startswith('const:'):
            return self.const_value(ast.literal_eval(ks[6:]))
        if ks == 'pylist':
            return []
        if ks.startswith('expr:'):
            return self.spec(st, ks[5:], raw=True)
        k = parse_kind(ks)
        return self.fresh_of_kind(k, name, st)

    def fresh_of_kind(self, k, name, st):
        if isinstance(k, tuple) and k[0] == 'counter':
            d = fresh_value(('dict', k[1], 'int'), name)
            d.default = VInt(0)
            d.flavor = 'counter'
            self.assume(st, d.size >= 0)
            return d
        v = fresh_value(k, name)
        self.wellformed(st, v)
        return v

    def wellformed(self, st, v):
        """Type invariants of fresh symbolic values (lengths non-negative, dtype ranges)."""
        if isinstance(v, VSeq):
            self.assume(st, v.length >= 0)
            if v.dtype in DTYPE_RANGE and v.ek == 'int':
                lo, hi = DTYPE_RANGE[v.dtype]
                i = z3.Int(fresh_name('wf'))
                self.assume(st, z3.ForAll([i], z3.And(v.arr[i] >= lo, v.arr[i] <= hi), patterns=[v.arr[i]]))
        elif isinstance(v, VMat):
            self.assume(st, z3.And(v.rows >= 0, v.cols >= 0))
            if v.dtype in DTYPE_RANGE and v.ek == 'int':
                lo, hi = DTYPE_RANGE[v.dtype]
                i, j = z3.Int(fresh_name('wf')), z3.Int(fresh_name('wf'))
                self.assume(st, z3.ForAll([i, j], z3.And(v.arr[i][j] >= lo, v.arr[i][j] <= hi), patterns=[v.arr[i][j]]))
        elif isinstance(v, VDict) and v.size is not None:
            self.assume(st, v.size >= 0)
        elif isinstance(v, VSet) and v.card is not None:
            self.assume(st, v.card >= 0)
        elif isinstance(v, VTuple):
            for x in v.items:
                self.wellformed(st, x)

    def const_value(self, c):
        if isinstance(c, bool):
            return VBool(c)
        if isinstance(c, int):
            return VInt(c)
        if isinstance(c, float):
            return VReal(c)
        if isinstance(c, str):
            return VStr(c)
        if c is None:
            return VNone()
        if isinstance(c, tuple):
            return VTuple([self.const_value(x) for x in c])
        raise EngineError(f'unsupported constant {c!r}')

    # ------------------------------------------------------------------ statements
    def hint(self, st, anchor, pre=None):
        """Ghost assertions of the contract (Dafny-style `assert`): proved at the anchor, then assumed."""
        for label, e in (self.cur.get('asserts') or {}).get(anchor, []):
            self.oblige(st, f'assert[{anchor}].{label}', self.spec(st, e, pre=pre), text=e)

    def exec_block(self, stmts, st):
        live = [st]
        done = []
        anchors = [a[6:] for a in (self.cur.get('asserts') or {}) if a.startswith('after:')]
        summ = self.cur.get('summarize') or {}
        for s in stmts:
            nxt = []
            for x in live:
                sm = None
                if summ and not isinstance(s, (ast.For, ast.While, ast.If)):
                    txt0 = self.src(s)
                    sm = next((v for a, v in summ.items() if txt0.startswith(a)), None)
                if sm is not None:
                    nxt.extend(self.exec_summarized(s, x, sm))
                    continue
                ab = None
                if self.cur.get('abstract') and not isinstance(s, (ast.For, ast.While, ast.If)):
                    txt0 = self.src(s)
                    ab = next((v for a, v in self.cur['abstract'].items() if txt0.startswith(a)), None)
                if ab is not None:
                    nxt.append(self.exec_abstract(s, x, ab))
                    continue
                for y, sig in self.exec_stmt(s, x):
                    if sig is None:
                        if anchors and not isinstance(s, (ast.For, ast.While, ast.If)):
                            txt = self.src(s)
                            for a in anchors:
                                if txt.startswith(a):
                                    self.hint(y, 'after:' + a)
                        nxt.append(y)
                    else:
                        done.append((y, sig))
            live = nxt
            if not live:
                break
        return [(x, None) for x in live] + done

    def exec_abstract(self, s, st, ab):
        """Assumed statement-level contract (trusted, listed in the evidence): the statement is NOT executed; the
        variable it assigns gets a fresh value of the declared kind constrained only by the stated facts."""
        names = set()
        if isinstance(s, ast.Assign):
            for t in s.targets:
                self._target_names(t, names)
        vars_ = ab['var'] if isinstance(ab['var'], (list, tuple)) else [ab['var']]
        kinds_ = ab['kind'] if isinstance(ab['var'], (list, tuple)) else [ab['kind']]
        if names != set(vars_):
            raise EngineError(f"abstract statement must assign exactly {vars_}: {self.src(s)[:60]}")
        for vn, vk in zip(vars_, kinds_):
            st.env[vn] = self.make_param(vn, vk, st) if not isinstance(vk, str) or not vk.startswith('expr:') else self.spec(st, vk[5:], raw=True)
        for label, e in ab.get('facts', []):
            self.assume(st, self.spec(st, e))
        note = f"{self.cur['qualname']}: ASSUMED contract of statement `{self.src(s)[:70]}`: " + '; '.join(e for _, e in ab.get('facts', []))
        if note not in self.dropped:
            self.dropped.append(note)
        self.trusted.add('statement:' + self.src(s)[:50])
        return st

    def exec_summarized(self, s, st, sm):
        """Statement-level contract: run the statement, prove the listed facts about `var`, then forget how the
        value was computed (drop the stub axioms introduced by the statement, havoc var) and keep only the facts.
        Sound: assumptions are only dropped, and every kept fact has just been proved."""
        n0 = len(st.pc)
        outs = self.exec_stmt(s, st)
        if len(outs) != 1 or outs[0][1] is not None:
            raise EngineError('summarize: statement forks or exits')
        y = outs[0][0]
        for label, e in sm['facts']:
            self.oblige(y, f"summary[{sm['var']}].{label}", self.spec(y, e), text=e)
        del y.pc[n0:]
        v = y.lookup(sm['var'])
        nv = self.fresh_like(v, sm['var'] + '@sum', y)
        if isinstance(nv, VSeq) and nv.arr is None:
            raise EngineError('summarize: empty kind-less sequence')
        y.env[sm['var']] = nv
        for label, e in sm['facts']:
            self.assume(y, self.spec(y, e))
        return [y]

    def is_inert_call(self, node):
        if not isinstance(node, ast.Call):
            return False
        f = node.func
        root = f
        while isinstance(root, (ast.Attribute, ast.Subscript)):
            root = root.value
        inert = tuple(self.cur.get('inert', ())) + INERT_DEFAULT
        if isinstance(root, ast.Name) and root.id in inert and isinstance(f, ast.Attribute):
            return True
        if isinstance(f, ast.Name) and f.id in ('print',):
            return True
        if isinstance(f, ast.Attribute) and isinstance(f.value, ast.Name) and (f.value.id, f.attr) == ('time', 'sleep'):
            return True
        return False

    def exec_stmt(self, s, st):
        try:
            return self.exec_stmt_(s, st)
        except PyRaise as e:
            return [(st, Signal('raise', e.exc))]

    def exec_stmt_(self, s, st):
        if isinstance(s, ast.Expr):
            if isinstance(s.value, ast.Constant):
                return [(st, None)]
            if self.is_inert_call(s.value):
                self.note_dropped(s)
                return [(st, None)]
            self.eval(s.value, st)
            return [(st, None)]
        if isinstance(s, ast.Assign):
            v = self.eval(s.value, st)
            for t in s.targets:
                self.assign(t, v, st)
            return [(st, None)]
        if isinstance(s, ast.AnnAssign):
            if s.value is not None:
                self.assign(s.target, self.eval(s.value, st), st)
            return [(st, None)]
        if isinstance(s, ast.AugAssign):
            cur = self.eval(self._as_load(s.target), st)
            rhs = self.eval(s.value, st)
            self.assign(s.target, self.binop(s.op, cur, rhs, st, node=s, inplace=True), st)
            return [(st, None)]
        if isinstance(s, ast.Return):
            v = self.eval(s.value, st) if s.value is not None else VNone()
            return [(st, Signal('return', v))]
        if isinstance(s, ast.If):
            return self.exec_if(s, st)
        if isinstance(s, ast.For):
            return self.exec_for(s, st)
        if isinstance(s, ast.While):
            return self.exec_while(s, st)
        if isinstance(s, ast.Continue):
            return [(st, Signal('continue'))]
        if isinstance(s, ast.Break):
            return [(st, Signal('break'))]
        if isinstance(s, ast.Pass):
            return [(st, None)]
        if isinstance(s, ast.Raise):
            name = 'Exception'
            if s.exc is not None:
                e = s.exc.func if isinstance(s.exc, ast.Call) else s.exc
                name = getattr(e, 'id', getattr(e, 'attr', 'Exception'))
            return [(st, Signal('raise', name))]
        if isinstance(s, ast.FunctionDef):
            nested = self.registry.get(f"{self.cur['qualname']}.{s.name}")
            if nested is not None:
                # nested def under its own contract: captured variables are extra (named) parameters
                def call_nested(I, st_, args, kwargs, c=nested):
                    fnode = frontend.load_function(c['module'], c['qualname']).node
                    own = [a.arg for a in fnode.args.args]
                    kw = dict(kwargs)
                    for pname in c['params']:
                        if pname not in own and pname not in kw:
                            kw[pname] = st_.lookup(pname)
                    return I.call_contract(c, args, kw, st_)
                st.env[s.name] = VFunc(s.name, call_nested)
            else:
                st.env[s.name] = VFunc(s.name, self.make_local_function(s))
            return [(st, None)]
        if isinstance(s, ast.Delete):
            for t in s.targets:
                if isinstance(t, ast.Name):
                    st.env.pop(t.id, None)
                elif isinstance(t, ast.Subscript):
                    base = self.eval(t.value, st)
                    if not isinstance(base, VDict):
                        raise EngineError('del x[k] on a non-dict')
                    kt = to_term(self.eval(t.slice, st), base.kk)
                    self.oblige(st, f'key[del {self.src(t)}]', base.dom[kt], text=self.src(t))
                    if base.size is not None:
                        base.size = base.size - 1
                    base.dom = z3.Store(base.dom, kt, z3.BoolVal(False))
                else:
                    raise EngineError('del of this target')
            return [(st, None)]
        if isinstance(s, ast.Global):
            return [(st, None)]
        if isinstance(s, ast.Assert):
            c = self.truth(self.eval(s.test, st), st)
            self.oblige(st, f'assert[{self.src(s.test)}]', c)
            return [(st, None)]
        if isinstance(s, ast.With):
            for item in s.items:
                v = self.eval(item.context_expr, st)
                if item.optional_vars is not None:
                    self.assign(item.optional_vars, v, st)
            return self.exec_block(s.body, st)
        if isinstance(s, ast.Try):
            return self.exec_try(s, st)
        raise EngineError(f'statement outside subset: {type(s).__name__} at line {s.lineno}')

    def exec_try(self, s, st):
        """try/except: body paths that raise are routed into the (first matching / bare) handler."""
        outs = []
        for y, sig in self.exec_block(s.body, st):
            if sig is not None and sig.kind == 'raise' and s.handlers:
                outs.extend(self.exec_block(s.handlers[0].body, y))
            else:
                outs.append((y, sig))
        return outs

    def note_dropped(self, s):
        txt = self.src(s)
        d = f"{self.cur['qualname']}: inert statement `{txt[:80]}`"
        if d not in self.dropped:
            self.dropped.append(d)

    def _as_load(self, t):
        n = copy.copy(t)
        n.ctx = ast.Load()
        return n

    def src(self, node):
        try:
            return ast.unparse(node)
        except Exception:
            return type(node).__name__

    def cond(self, e, st):
        """Truth value of a test expression: `a and b` / `a or b` / `not a` only need the operands' truth (python's value
        semantics of and/or is irrelevant in a condition), evaluated with short-circuit guards."""
        if isinstance(e, ast.BoolOp):
            is_and = isinstance(e.op, ast.And)
            ts = []
            for x in e.values:
                t = self.cond(x, st)
                ts.append(t)
                st.guards.append(t if is_and else z3.Not(t))
            for _ in ts:
                st.guards.pop()
            return z3.And(*ts) if is_and else z3.Or(*ts)
        if isinstance(e, ast.UnaryOp) and isinstance(e.op, ast.Not):
            return z3.Not(self.cond(e.operand, st))
        return self.truth(self.eval(e, st), st)

    def exec_if(self, s, st):
        c = self.cond(s.test, st)
        cs = z3.simplify(c)
        if z3.is_true(cs):
            return self.exec_block(s.body, st)
        if z3.is_false(cs):
            return self.exec_block(s.orelse, st)
        outs = []
        tag = self._uniq(f"if@{self.cur['qualname']}")
        a = st.clone()
        a.pc.append(c)
        a.trail.append('T')
        b = st
        b.pc.append(z3.Not(c))
        b.trail.append('F')
        # `x is None` / `x is not None`: in the branch where x is known not to be None, x is its payload
        t = s.test
        if isinstance(t, ast.Compare) and len(t.ops) == 1 and isinstance(t.ops[0], (ast.Is, ast.IsNot)) \
                and isinstance(t.left, ast.Name) and isinstance(t.comparators[0], ast.Constant) and t.comparators[0].value is None:
            tgt = b if isinstance(t.ops[0], ast.Is) else a
            v = tgt.lookup(t.left.id)
            if isinstance(v, VOpt):
                tgt.env[t.left.id] = v.val
        if self.feasible(a):
            outs.extend(self.exec_block(s.body, a))
        if self.feasible(b):
            outs.extend(self.exec_block(s.orelse, b))
        return outs

    def feasible(self, st):
        s = z3.Solver()
        s.set('timeout', 300)
        qf = [p for p in st.pc if not _has_quantifier(p)]
        s.add(*qf)
        return s.check() != z3.unsat

    # ------------------------------------------------------------------ loops
    def loop_spec(self, node):
        k = self.loop_ord.get(id(node))
        spec = (self.cur.get('loops') or {}).get(k)
        if spec is None:
            raise EngineError(f"UNBOUND: loop #{k} of {self.cur['qualname']} (line {node.lineno}) has no invariant in the contract")
        return k, spec

    def mutated_exprs(self, body):
        """Names (re)bound and container expressions mutated inside a loop body (syntactic)."""
        names, conts = set(), []

        def target(t):
            if isinstance(t, ast.Name):
                names.add(t.id)
            elif isinstance(t, (ast.Tuple, ast.List)):
                for e in t.elts:
                    target(e)
            elif isinstance(t, ast.Subscript):
                conts.append(t.value)
            elif isinstance(t, ast.Attribute):
                conts.append(t.value)
            elif isinstance(t, ast.Starred):
                target(t.value)

        for st_ in body:
            for n in ast.walk(st_):
                if isinstance(n, (ast.FunctionDef, ast.Lambda)):
                    continue
                if isinstance(n, ast.Assign):
                    for t in n.targets:
                        target(t)
                elif isinstance(n, (ast.AugAssign, ast.AnnAssign)):
                    target(n.target)
                elif isinstance(n, ast.For):
                    target(n.target)
                elif isinstance(n, ast.Delete):
                    for t in n.targets:
                        if isinstance(t, ast.Subscript):
                            conts.append(t.value)
                elif isinstance(n, ast.Call) and isinstance(n.func, ast.Attribute) and n.func.attr in MUTATORS:
                    if not self.is_inert_call(n):
                        conts.append(n.func.value)
                elif isinstance(n, ast.Call):
                    cn = self.callee_contract(n.func)
                    if cn is not None:
                        # a method call `recv.m(a, b)` binds the callee's first parameter (self) to the receiver
                        is_method = isinstance(n.func, ast.Attribute) and '.' in cn['qualname'] and list(cn['params'])[:1] == ['self']
                        actuals = ([n.func.value] if is_method else []) + list(n.args)
                        for m in cn.get('modifies', []):
                            if m.startswith('param:'):
                                path = m[6:].split('.')
                                pnames = [p_ for p_ in cn['params']]
                                if path[0] not in pnames:
                                    continue
                                idx = pnames.index(path[0])
                                expr = None
                                if idx < len(actuals):
                                    expr = actuals[idx]
                                else:
                                    kw = [k_.value for k_ in n.keywords if k_.arg == path[0]]
                                    expr = kw[0] if kw else None
                                if expr is None:
                                    continue
                                for fld in path[1:]:
                                    expr = ast.Attribute(value=expr, attr=fld, ctx=ast.Load())
                                conts.append(expr)
                            else:
                                conts.append(ast.Name(id=m, ctx=ast.Load()))
                elif isinstance(n, ast.comprehension):
                    pass
        return names, conts

    def havoc(self, st, names, conts, tag):
        seen = set()
        for c in conts:
            try:
                v = self.eval(c, st)
            except EngineError:
                continue
            if id(v) in seen:
                continue
            seen.add(id(v))
            if isinstance(v, (VInt, VReal, VBool, VStr, VOpaque, VNone, VOpt)) and isinstance(c, ast.Name):
                names = set(names) | {c.id}        # scalar binding (e.g. a global modified by a callee): rebind the name
                continue
            self.havoc_value(st, v, tag)
        for n in sorted(names):
            v = st.lookup(n)
            if v is None:
                continue
            nv = self.fresh_like(v, f'{n}@{tag}', st)
            if n in st.env or n not in st.glob:
                st.env[n] = nv
            else:
                st.glob[n] = nv

    def fresh_like(self, v, base, st):
        if isinstance(v, VReal) and v.inf is not None:
            f = z3.Int(fresh_name(base + '.inf'))
            self.assume(st, z3.And(f >= -1, f <= 1))
            return VReal(z3.Real(fresh_name(base)), inf=f)
        if isinstance(v, (VInt, VReal, VBool, VStr)):
            return fresh_value(v.kind, base)
        if isinstance(v, VNone):
            return VNone()
        if isinstance(v, VTuple):
            return VTuple([self.fresh_like(x, base, st) for x in v.items])
        if isinstance(v, VSeq):
            n = VSeq(v.ek, z3.Int(fresh_name(base + '.len')), z3.Array(fresh_name(base + '.arr'), z3.IntSort(), sort_of(v.ek)),
                     init=None if v.init is None else z3.Array(fresh_name(base + '.init'), z3.IntSort(), z3.BoolSort()),
                     flavor=v.flavor, dtype=v.dtype)
            if v.flavor == 'series':
                # whether this function owns the object bound to the name is part of the (havocked) state: state it in the invariant
                n.owned = z3.Bool(fresh_name(base + '.owned'))
            self.wellformed(st, n)
            return n
        if isinstance(v, VMat):
            # an array mutated in place keeps its shape and dtype; the cells are unknown
            n = VMat(v.ek, v.rows, v.cols, z3.Array(fresh_name(base + '.mat'), z3.IntSort(), z3.ArraySort(z3.IntSort(), sort_of(v.ek))), dtype=v.dtype)
            self.wellformed(st, n)
            return n
        if isinstance(v, VOpt):
            return VOpt(z3.Bool(fresh_name(base + '.isnone')), self.fresh_like(v.val, base, st))
        if isinstance(v, (VSet, VDict)):
            n = copy.deepcopy(v)
            self.havoc_value(st, n, base)
            return n
        if isinstance(v, VOpaque) and v.t is not None:
            return VOpaque(v.tag, z3.Const(fresh_name(base), v.t.sort()))
        if isinstance(v, (VObj, VFunc, VModule, VOpaque)):
            return v
        raise EngineError(f'cannot havoc {v!r}')

    def havoc_value(self, st, v, tag):
        if isinstance(v, VSeq):
            v.arr = z3.Array(fresh_name(f'h.{tag}.arr'), z3.IntSort(), sort_of(v.ek))
            if v.flavor == 'list':
                v.length = z3.Int(fresh_name(f'h.{tag}.len'))
            if v.init is not None:
                v.init = z3.Array(fresh_name(f'h.{tag}.init'), z3.IntSort(), z3.BoolSort())
            self.wellformed(st, v)
        elif isinstance(v, VMat):
            v.arr = z3.Array(fresh_name(f'h.{tag}.mat'), z3.IntSort(), z3.ArraySort(z3.IntSort(), sort_of(v.ek)))
            self.wellformed(st, v)
        elif isinstance(v, VSet):
            v.mem = z3.Array(fresh_name(f'h.{tag}.mem'), sort_of(v.ek), z3.BoolSort())
            if v.card is not None:
                v.card = z3.Int(fresh_name(f'h.{tag}.card'))
                self.assume(st, v.card >= 0)
        elif isinstance(v, VDict):
            v.dom = z3.Array(fresh_name(f'h.{tag}.dom'), sort_of(v.kk), z3.BoolSort())
            v.val = z3.Array(fresh_name(f'h.{tag}.val'), sort_of(v.kk), sort_of(v.vk))
            if v.size is not None:
                v.size = z3.Int(fresh_name(f'h.{tag}.size'))
                self.assume(st, v.size >= 0)
        elif isinstance(v, VObj):
            for f, x in list(v.fields.items()):
                if isinstance(x, (VSeq, VSet, VDict, VObj, VMat)):
                    self.havoc_value(st, x, tag)
                else:
                    v.fields[f] = self.fresh_like(x, f'{tag}.{f}', st)
        else:
            raise EngineError(f'cannot havoc value {v!r}')

    def iter_view(self, it_node, st):
        """(length term, element-at function, kind description) of the iterable of a for loop."""
        it = self.eval(it_node, st)
        return self.iter_of_value(it, st)

    def iter_of_value(self, it, st):
        if isinstance(it, VSeq):
            snap_arr, snap_len, ek = it.arr, it.length, it.ek
            if it.init is not None:
                i = z3.Int(fresh_name('it'))
                self.oblige(st, 'defined[iter]', z3.ForAll([i], z3.Implies(z3.And(i >= 0, i < snap_len), it.init[i])))
            return snap_len, (lambda k: from_term(snap_arr[k], ek))
        if isinstance(it, VTuple):
            if not it.items:
                return z3.IntVal(0), (lambda k: VNone())
            kinds = {x.kind for x in it.items}
            if len(kinds) != 1:
                raise EngineError('iteration over heterogeneous tuple')
            ek = it.items[0].kind
            arr = z3.K(z3.IntSort(), to_term(it.items[0], ek))
            for j, x in enumerate(it.items):
                arr = z3.Store(arr, j, to_term(x, ek))
            return z3.IntVal(len(it.items)), (lambda k: from_term(arr[k], ek))
        if isinstance(it, VSet):
            # arbitrary but fixed enumeration of the set (assumption 4 of DESIGN 2.2)
            enum = z3.Array(fresh_name('setenum'), z3.IntSort(), sort_of(it.ek))
            rank = z3.Function(fresh_name('setrank'), sort_of(it.ek), z3.IntSort())
            n = it.card if it.card is not None else z3.Int(fresh_name('setcard'))
            i = z3.Int(fresh_name('i'))
            x = z3.Const(fresh_name('x'), sort_of(it.ek))
            mem = it.mem
            self.assume(st, n >= 0)
            self.assume(st, z3.ForAll([i], z3.Implies(z3.And(i >= 0, i < n), z3.And(mem[enum[i]], rank(enum[i]) == i)),
                                      patterns=[enum[i]]))
            pats = [rank(x)]
            if z3.is_const(mem) and mem.decl().kind() == z3.Z3_OP_UNINTERPRETED:
                pats.append(mem[x])
            self.assume(st, z3.ForAll([x], z3.Implies(mem[x], z3.And(rank(x) >= 0, rank(x) < n, enum[rank(x)] == x)),
                                      patterns=pats))
            ek = it.ek
            return n, (lambda k: from_term(enum[k], ek))
        if isinstance(it, VObj) and it.cls == 'File':
            return self.iter_of_value(it.fields['lines'], st)
        if isinstance(it, VObj) and it.cls == 'DictItems':
            d = it.fields['dict']
            n, kelem = self.iter_of_value(VSet(d.kk, d.dom, d.size), st)
            val0, vk, kk = d.val, d.vk, d.kk
            return n, (lambda k: VTuple([kelem(k), from_term(val0[to_term(kelem(k), kk)], vk)]))
        if isinstance(it, VDict):
            raise EngineError('iterate dict: use .items()/.keys() stubs')
        raise EngineError(f'cannot iterate {it!r}')

    def exec_for(self, s, st):
        k, spec = self.loop_spec(s)
        tag = f"L{k}"
        idx_name = spec.get('index', f'_k{k}')
        if s.orelse:
            raise EngineError('for-else outside subset')
        n, elem = self.iter_view(s.iter, st)
        kq = z3.Int(fresh_name('kq'))
        try:
            e0 = elem(kq)
            st.env[idx_name + '_seq'] = VSeq(e0.kind, n, z3.Lambda([kq], to_term(e0, e0.kind)), flavor='tuple')
        except EngineError:
            pass
        names, conts = self.mutated_exprs(s.body)
        tnames = set()
        self._target_names(s.target, tnames)
        names |= tnames
        names.discard(idx_name)
        invs = spec.get('inv', [])
        # ghost snapshot at loop entry: pre(x) in invariants refers to the value at loop entry
        pre = copy.deepcopy({**st.glob, **st.env})
        st.ghost_idx[idx_name] = True
        # (1) invariant holds on entry (k = 0)
        st.env[idx_name] = VInt(0)
        for label, e in invs:
            self.oblige(st, f'inv#{k}.init.{label}', self.spec(st, e, pre=pre), text=e)
        # (2) arbitrary iteration
        body_st = st.clone()
        self.havoc(body_st, names, conts, tag)
        kk = z3.Int(fresh_name(idx_name))
        body_st.env[idx_name] = VInt(kk)
        body_pre = copy.deepcopy(pre)
        self.assume(body_st, z3.And(kk >= 0, kk < n))
        for label, e in invs:
            self.assume(body_st, self.spec(body_st, e, pre=body_pre))
        self.cover(body_st, f'loop#{k}.body')
        self.assign(s.target, elem(kk), body_st)
        self.hint(body_st, f'loop#{k}.body', pre=body_pre)
        body_prev = copy.deepcopy({**body_st.glob, **body_st.env})     # prev(x): value at the start of this iteration
        body_st.trail.append(f'[{tag}]')
        outs = []
        dec = spec.get('decreases')
        for y, sig in self.exec_block(s.body, body_st):
            if sig is None or sig.kind == 'continue':
                y._prev = body_prev
                self.hint(y, f'loop#{k}.end', pre=body_pre)
                y.env[idx_name] = VInt(kk + 1)
                for label, e in invs:
                    self.oblige(y, f'inv#{k}.preserve.{label}', self.spec(y, e, pre=body_pre), text=e)
                if os.environ.get('PYVC_CANARY'):
                    self.oblige(y, f'canary.loop#{k}.end', z3.BoolVal(False), text='canary (must not be provable)')
            elif sig.kind == 'break':
                y.env[idx_name] = VInt(kk)
                outs.append((y, None))
            else:
                outs.append((y, sig))
        # (3) after the loop (k = n)
        self.havoc(st, names, conts, tag + 'x')
        kx = z3.Int(fresh_name(idx_name + 'x'))
        st.env[idx_name] = VInt(kx)
        self.assume(st, kx == n)
        for label, e in invs:
            self.assume(st, self.spec(st, e, pre=pre))
        self.hint(st, f'loop#{k}.exit', pre=pre)
        st.trail.append(f'[{tag}x]')
        outs.append((st, None))
        return outs

    def _target_names(self, t, out):
        if isinstance(t, ast.Name):
            out.add(t.id)
        elif isinstance(t, (ast.Tuple, ast.List)):
            for e in t.elts:
                self._target_names(e, out)

    def exec_while(self, s, st):
        k, spec = self.loop_spec(s)
        tag = f'L{k}'
        if s.orelse:
            raise EngineError('while-else outside subset')
        names, conts = self.mutated_exprs(s.body)
        invs = spec.get('inv', [])
        pre = copy.deepcopy({**st.glob, **st.env})
        for label, e in invs:
            self.oblige(st, f'inv#{k}.init.{label}', self.spec(st, e, pre=pre), text=e)
        body_st = st.clone()
        body_pre = copy.deepcopy(pre)
        self.havoc(body_st, names, conts, tag)
        for label, e in invs:
            self.assume(body_st, self.spec(body_st, e, pre=body_pre))
        c = self.truth(self.eval(s.test, body_st), body_st)
        self.assume(body_st, c)
        self.cover(body_st, f'loop#{k}.body')
        body_prev = copy.deepcopy({**body_st.glob, **body_st.env})     # prev(x): value at the start of this iteration
        dec = spec.get('decreases')
        d0 = self.spec(body_st, dec, pre=body_pre, raw=True) if dec else None
        body_st.trail.append(f'[{tag}]')
        outs = []
        for y, sig in self.exec_block(s.body, body_st):
            if sig is None or sig.kind == 'continue':
                y._prev = body_prev
                self.hint(y, f'loop#{k}.end', pre=body_pre)
                for label, e in invs:
                    self.oblige(y, f'inv#{k}.preserve.{label}', self.spec(y, e, pre=body_pre), text=e)
                if dec:
                    d1 = self.spec(y, dec, pre=body_pre, raw=True)
                    self.oblige(y, f'loop#{k}.decreases', z3.And(d0.t >= 0, d1.t < d0.t), text=dec)
            elif sig.kind == 'break':
                outs.append((y, None))
            else:
                outs.append((y, sig))
        self.havoc(st, names, conts, tag + 'x')
        for label, e in invs:
            self.assume(st, self.spec(st, e, pre=pre))
        c2 = self.truth(self.eval(s.test, st), st)
        self.assume(st, z3.Not(c2))
        st.trail.append(f'[{tag}x]')
        outs.append((st, None))
        return outs

    # ------------------------------------------------------------------ assignment
    def typed_empty(self, v, ks):
        """`[]`, `{}`, `set()`, `Counter()` bound to a local whose kind the contract declares (local_kinds)."""
        k = parse_kind(ks)
        if isinstance(v, VDict) and v.kk == 'unknown' and isinstance(k, tuple) and k[0] in ('dict', 'counter'):
            kk, vk = (k[1], 'int') if k[0] == 'counter' else (k[1], k[2])
            return VDict(kk, vk, z3.K(sort_of(kk), z3.BoolVal(False)), z3.K(sort_of(kk), to_term(fresh_value(vk, 'dflt'), vk)),
                         z3.IntVal(0), default=v.default, flavor=v.flavor)
        if isinstance(v, VSeq) and v.arr is None and isinstance(k, tuple) and k[0] == 'list':
            return VSeq(k[1], z3.IntVal(0), z3.K(z3.IntSort(), to_term(fresh_value(k[1], 'dflt'), k[1])), flavor='list')
        if isinstance(v, VSet) and v.ek == 'unknown' and isinstance(k, tuple) and k[0] == 'set':
            return VSet(k[1], z3.K(sort_of(k[1]), z3.BoolVal(False)), z3.IntVal(0))
        if isinstance(k, tuple) and k[0] == 'opt':
            if isinstance(v, VNone):
                return VOpt(z3.BoolVal(True), fresh_value(k[1], 'none'))
            if not isinstance(v, VOpt):
                return VOpt(z3.BoolVal(False), v)
        if k == 'real' and isinstance(v, VReal) and v.inf is None and ks.endswith('#ext'):
            return VReal(v.t, inf=z3.IntVal(0))
        return v

    def assign(self, t, v, st):
        if isinstance(t, ast.Name) and t.id in (self.cur.get('local_kinds') or {}):
            v = self.typed_empty(v, self.cur['local_kinds'][t.id])
        if isinstance(t, ast.Name):
            if t.id in (self.cur.get('name_scalars') or ()):
                v = self.name_scalar(v, t.id, st)
            if t.id in st.glob and t.id not in st.env and self._is_global_decl(t.id):
                st.glob[t.id] = v
            else:
                st.env[t.id] = v
            return
        if isinstance(t, (ast.Tuple, ast.List)):
            items = self.unpack(v, len(t.elts), st)
            for e, x in zip(t.elts, items):
                self.assign(e, x, st)
            return
        if isinstance(t, ast.Subscript):
            base = self.eval(t.value, st)
            self.store_subscript(base, t, v, st)
            return
        if isinstance(t, ast.Attribute):
            base = self.eval(t.value, st)
            if isinstance(base, VObj):
                ak = (self.cur.get('attr_kinds') or {}).get(t.attr)
                if ak == 'PresetDict' and isinstance(v, VDict) and v.kk == 'unknown':
                    v = VOpaque('PresetDict', self.stubs._psym()['PD_EMPTY'])
                base.fields[t.attr] = v
                return
            raise EngineError(f'attribute store on {base!r}')
        raise EngineError(f'assignment target {type(t).__name__}')

    def name_scalar(self, v, name, st):
        """A scalar local whose value is a non-linear / truncating arithmetic term gets a name (fresh constant with a defining
        equation): later VCs mention the name instead of a copy of the term everywhere (a conservative extension)."""
        if not isinstance(v, (VInt, VReal)) or getattr(v, 'inf', None) is not None or st.guards:
            return v
        if not _hard_term(v.t) or any(self.stubs._mentions(v.t, b) for b in self.bound):
            return v
        c = (z3.Int if isinstance(v, VInt) else z3.Real)(fresh_name(name + '@def'))
        self.assume(st, c == v.t)
        return VInt(c, dtype=v.dtype) if isinstance(v, VInt) else VReal(c)

    def _is_global_decl(self, name):
        for n in ast.walk(self.fn.node):
            if isinstance(n, ast.Global) and name in n.names:
                return True
        return False

    def unpack(self, v, n, st):
        if isinstance(v, VTuple):
            if len(v.items) != n:
                raise EngineError(f'unpack arity {len(v.items)} != {n}')
            return v.items
        if isinstance(v, VSeq):
            self.oblige(st, 'unpack.len', v.length == n)
            return [self.seq_get(v, z3.IntVal(i), st, check=False) for i in range(n)]
        raise EngineError(f'cannot unpack {v!r}')

    def store_subscript(self, base, t, v, st):
        sl = t.slice
        if isinstance(base, VSeq):
            if isinstance(sl, ast.Slice):
                lo = self.eval(sl.lower, st).t if sl.lower is not None else z3.IntVal(0)
                hi = self.eval(sl.upper, st).t if sl.upper is not None else base.length
                if sl.step is not None:
                    raise EngineError('slice step')
                # numpy slice assignment a[lo:hi] = src (src sequence of the same length, or scalar)
                self.oblige(st, f'slice_store[{self.src(t)}].bounds', z3.And(0 <= lo, lo <= hi, hi <= base.length))
                i = z3.Int(fresh_name('i'))
                if isinstance(v, VSeq):
                    self.oblige(st, f'slice_store[{self.src(t)}].shape', v.length == hi - lo)
                    if v.init is not None:
                        self.oblige(st, f'defined[{self.src(t)}.rhs]',
                                    z3.ForAll([i], z3.Implies(z3.And(i >= 0, i < v.length), v.init[i])))
                    src_arr = v.arr
                    conv = (lambda term: z3.ToReal(term)) if (base.ek == 'real' and v.ek == 'int') else (lambda term: term)
                    base.arr = z3.Lambda([i], z3.If(z3.And(i >= lo, i < hi), conv(src_arr[i - lo]), base.arr[i]))
                else:
                    term = to_term(v, base.ek)
                    base.arr = z3.Lambda([i], z3.If(z3.And(i >= lo, i < hi), term, base.arr[i]))
                if base.init is not None:
                    base.init = z3.Lambda([i], z3.Or(z3.And(i >= lo, i < hi), base.init[i]))
                if not st.guards and not any(self.stubs._mentions(base.arr, b) for b in self.bound):
                    # name the updated array (and its init map): pointwise definitions instead of nested lambda terms, which
                    # e-matching only sees after lazy beta-reduction (measured: the same VC flips between 0.6 s and a timeout)
                    G = z3.Array(fresh_name('sl.arr'), z3.IntSort(), sort_of(base.ek))
                    self.assume(st, z3.ForAll([i], G[i] == z3.simplify(base.arr[i]), patterns=[G[i]]))
                    base.arr = G
                    if base.init is not None:
                        Gi = z3.Array(fresh_name('sl.init'), z3.IntSort(), z3.BoolSort())
                        self.assume(st, z3.ForAll([i], Gi[i] == z3.simplify(base.init[i]), patterns=[Gi[i]]))
                        base.init = Gi
                return
            idx = self.eval(sl, st)
            if isinstance(idx, VSeq) and idx.ek == 'bool':
                # boolean-mask store a[mask] = scalar
                i = z3.Int(fresh_name('i'))
                term = to_term(v, base.ek)
                base.arr = z3.Lambda([i], z3.If(z3.And(i >= 0, i < base.length, idx.arr[i]), term, base.arr[i]))
                return
            if isinstance(idx, VSeq) and idx.ek == 'int':
                # fancy-index store a[idxs] = scalar
                term = to_term(v, base.ek)
                i = z3.Int(fresh_name('i'))
                j = z3.Int(fresh_name('j'))
                self.oblige(st, f'bounds[{self.src(t)}]', z3.ForAll([j], z3.Implies(
                    z3.And(j >= 0, j < idx.length), z3.And(idx.arr[j] >= 0, idx.arr[j] < base.length))))
                hit = z3.Function(fresh_name('hit'), z3.IntSort(), z3.BoolSort())
                self.assume(st, z3.ForAll([i], hit(i) == z3.Exists([j], z3.And(j >= 0, j < idx.length, idx.arr[j] == i))))
                base.arr = z3.Lambda([i], z3.If(hit(i), term, base.arr[i]))
                return
            i = self.index_term(idx, base, st, self.src(t))
            self.range_check(base, v, st, self.src(t))
            base.arr = z3.Store(base.arr, i, to_term(self.coerce_elem(v, base), base.ek))
            if base.init is not None:
                base.init = z3.Store(base.init, i, z3.BoolVal(True))
            return
        if isinstance(base, VMat):
            idx = self.eval(sl, st)
            if not (isinstance(idx, VTuple) and len(idx.items) == 2):
                raise EngineError('2-D store needs M[i, j]')
            i, j = to_term(idx.items[0], 'int'), to_term(idx.items[1], 'int')
            txt = self.src(t)
            self.oblige(st, f'bounds[{txt}]', z3.And(i >= 0, i < base.rows, j >= 0, j < base.cols), text=txt)
            if base.dtype in DTYPE_RANGE and isinstance(v, (VInt, VBool)):
                lo, hi = DTYPE_RANGE[base.dtype]
                tv = to_term(v, 'int')
                self.oblige(st, f'range[{txt}:{base.dtype}]', z3.And(tv >= lo, tv <= hi))
            base.arr = z3.Store(base.arr, i, z3.Store(base.arr[i], j, to_term(v, base.ek)))
            return
        if isinstance(base, VDict):
            key = self.eval(sl, st)
            if base.kk == 'unknown':
                self.stubs._fix_dict_kind(base, key.kind, v.kind)
            kt = to_term(key, base.kk)
            if base.size is not None:
                base.size = z3.If(base.dom[kt], base.size, base.size + 1)
            base.dom = z3.Store(base.dom, kt, z3.BoolVal(True))
            base.val = z3.Store(base.val, kt, to_term(v, base.vk))
            return
        if isinstance(base, VObj) and base.cls == 'Table' and self.stubs.table_store(self, st, base, self.eval(sl, st), v):
            return
        raise EngineError(f'subscript store on {base!r}')

    def coerce_elem(self, v, base):
        if base.ek == 'int' and isinstance(v, VReal):
            # numpy casts on store: truncation toward zero
            return VInt(self.trunc(v.t))
        return v

    def trunc(self, r):
        return z3.If(r >= 0, z3.ToInt(r), -z3.ToInt(-r))

    def range_check(self, base, v, st, txt):
        if base.dtype in DTYPE_RANGE and base.ek == 'int' and isinstance(v, (VInt, VBool)):
            lo, hi = DTYPE_RANGE[base.dtype]
            t = to_term(v, 'int')
            self.oblige(st, f'range[{txt}:{base.dtype}]', z3.And(t >= lo, t <= hi))

    def index_term(self, idx, base, st, txt, check=True):
        if not isinstance(idx, (VInt, VBool)):
            raise EngineError(f'index {idx!r} in {txt}')
        i = to_term(idx, 'int')
        if base.flavor == 'list' or True:
            # python/numpy negative indices wrap; we require the in-range form and prove it
            if check:
                self.oblige(st, f'bounds[{txt}]', z3.And(i >= 0, i < base.length), text=txt)
        return i

    def seq_get(self, base, i, st, check=True, txt=''):
        if check:
            self.oblige(st, f'bounds[{txt}]', z3.And(i >= 0, i < base.length), text=txt)
        if base.init is not None:
            self.oblige(st, f'defined[{txt}]', base.init[i], text=txt)
        v = from_term(base.arr[i], base.ek)
        if isinstance(v, VInt):
            v.dtype = base.dtype
        return v

    # ------------------------------------------------------------------ expressions
    def truth(self, v, st):
        if isinstance(v, VBool):
            return v.t
        if isinstance(v, VInt):
            return v.t != 0
        if isinstance(v, VReal):
            return v.t != 0
        if isinstance(v, VStr):
            if v.opaque:
                return v.t != sym.pstr_lit('')
            return z3.Length(v.t) > 0
        if isinstance(v, VNone):
            return z3.BoolVal(False)
        if isinstance(v, VSeq):
            return v.length > 0
        if isinstance(v, VOpt):
            return z3.And(z3.Not(v.is_none), self.truth(v.val, st))
        if isinstance(v, VDict) and v.size is not None:
            return v.size > 0
        if isinstance(v, VSet) and v.card is not None:
            return v.card > 0
        if isinstance(v, VTuple):
            return z3.BoolVal(len(v.items) > 0)
        if isinstance(v, VOpaque) and v.tag == 'PresetDict':
            return self.stubs._psym()['PD_NONEMPTY'](v.t)
        if isinstance(v, (VObj, VFunc)):
            return z3.BoolVal(True)
        raise EngineError(f'truth value of {v!r}')

    def eval(self, e, st) -> V:
        m = getattr(self, 'e_' + type(e).__name__, None)
        if m is None:
            raise EngineError(f'expression outside subset: {type(e).__name__} `{self.src(e)}`')
        return m(e, st)

    def e_Constant(self, e, st):
        return self.const_value(e.value)

    def e_Name(self, e, st):
        v = st.lookup(e.id)
        if v is not None:
            return v
        if e.id in ('True', 'False'):
            return VBool(e.id == 'True')
        if e.id == 'np' or e.id in self.stubs.MODULES:
            return VModule(self.stubs.MODULES.get(e.id, e.id))
        if self.stubs.lookup(e.id) is not None:
            return VFunc(e.id, self.stubs.lookup(e.id))
        c = self.lookup_contract(e.id)
        if c is not None:
            return VFunc(e.id, lambda I, st_, args, kwargs, c=c: I.call_contract(c, args, kwargs, st_))
        if '.' in self.cur['qualname']:
            # a sibling nested def of the enclosing function, under its own contract (captured by the closure)
            sib = self.registry.get(self.cur['qualname'].rsplit('.', 1)[0] + '.' + e.id)
            if sib is not None and sib['module'] == self.cur['module'] and self.is_sibling_def(sib):
                return VFunc(e.id, lambda I, st_, args, kwargs, c=sib: I.call_contract(c, args, kwargs, st_))
        ctor = (self.cur.get('constructors') or {}).get(e.id)
        if ctor is not None:
            return VFunc(e.id, lambda I, st_, args, kwargs, ctor=ctor, nm=e.id: VObj(nm, dict(zip(ctor, args), **kwargs)))
        mc = self.module_constant(e.id)
        if mc is not None:
            return mc
        if self.spec_mode and e.id in self.speclib.SPEC_FUNCS:
            return VFunc(e.id, self.speclib.SPEC_FUNCS[e.id])
        raise EngineError(f'unbound name `{e.id}` in {self.cur["qualname"]}')

    def is_sibling_def(self, sib):
        try:
            frontend.load_function(sib['module'], sib['qualname'])
            return True
        except Exception:
            return False

    def module_constant(self, name):
        vals = frontend.module_level_assignments(self.cur['module'])
        if name in vals:
            try:
                c = eval(compile(ast.Expression(vals[name]), '<const>', 'eval'), {'__builtins__': {}}, {})
            except Exception:
                return None
            try:
                return self.const_value(c)
            except EngineError:
                return None
        return None

    def lookup_contract(self, name):
        for key, c in self.registry.items():
            if c['qualname'] == name and c['module'] == self.cur['module']:
                return c
        for key, c in self.registry.items():
            if c['qualname'] == name or key == name:
                return c
        return None

    def callee_contract(self, fnode):
        if isinstance(fnode, ast.Name):
            return self.lookup_contract(fnode.id)
        if isinstance(fnode, ast.Attribute):
            # module.func / Class.method / self.method
            if isinstance(fnode.value, ast.Name):
                for key, c in self.registry.items():
                    if c['qualname'].split('.')[-1] == fnode.attr and (
                            c['qualname'] == f'{fnode.value.id}.{fnode.attr}' or c['module_name'] == fnode.value.id
                            or fnode.value.id == 'self'):
                        return c
        return None

    def e_Tuple(self, e, st):
        return VTuple([self.eval(x, st) for x in e.elts])

    def e_List(self, e, st):
        items = [self.eval(x, st) for x in e.elts]
        if any(isinstance(x, VObj) for x in items):
            return VTuple(items)       # a literal list of objects (e.g. the frames handed to pd.concat)
        kinds = {x.kind for x in items}
        if len(kinds) > 1 and not kinds <= {'int', 'real', 'bool'} and 'none' not in kinds:
            return VTuple(items)       # small heterogeneous list literal, e.g. [name, score]: modelled as a tuple
        return self.seq_from_items(items, st)

    def seq_from_items(self, items, st, ek=None, flavor='list'):
        items = [x.val if isinstance(x, VOpt) and z3.is_false(z3.simplify(x.is_none)) else x for x in items]
        if not items:
            # empty list: element kind is fixed lazily on first append
            return VSeq(ek or 'unknown', z3.IntVal(0), None, flavor=flavor)
        ek = ek or self.join_kinds([x.kind for x in items])
        arr = z3.K(z3.IntSort(), to_term(items[0], ek))
        for j, x in enumerate(items):
            arr = z3.Store(arr, j, to_term(x, ek))
        return VSeq(ek, z3.IntVal(len(items)), arr, flavor=flavor)

    def join_kinds(self, ks):
        ks = list(dict.fromkeys(ks))
        if len(ks) == 1:
            return ks[0]
        if set(ks) <= {'int', 'real', 'bool'}:
            return 'real' if 'real' in ks else 'int'
        if 'none' in ks and len(ks) == 2:
            other = [k for k in ks if k != 'none'][0]
            return ('opt', other)
        raise EngineError(f'heterogeneous kinds {ks}')

    def e_Set(self, e, st):
        items = [self.eval(x, st) for x in e.elts]
        return self.stubs.set_from_items(self, st, items)

    def e_Dict(self, e, st):
        if e.keys and all(k is None for k in e.keys):
            # {**a, **b, ...} over opaque preset dictionaries: later operands win
            vals = [self.eval(v, st) for v in e.values]
            for j, v in enumerate(vals):
                if isinstance(v, VOpt):
                    self.oblige(st, f'not_none[**{self.src(e.values[j])}]', z3.Not(v.is_none))
                    vals[j] = v.val
            if all(isinstance(v, VOpaque) and v.tag == 'PresetDict' for v in vals):
                r = vals[0].t
                for v in vals[1:]:
                    r = self.stubs._psym()['PD_MERGE'](r, v.t)
                return VOpaque('PresetDict', r)
            raise EngineError('dict unpacking of non-preset dictionaries')
        if e.keys and all(isinstance(k, ast.Constant) and isinstance(k.value, str) for k in e.keys):
            return VObj('dictlit', {k.value: self.eval(v, st) for k, v in zip(e.keys, e.values)})
        if e.keys:
            raise EngineError('non-empty dict literal')
        return VDict('unknown', 'unknown', None, None, z3.IntVal(0))

    def e_JoinedStr(self, e, st):
        parts = []
        for p in e.values:
            if isinstance(p, ast.Constant):
                parts.append(VStr(p.value).t)
            else:
                v = self.eval(p.value, st)
                parts.append(self.to_str(v, st).t)
        if not parts:
            return VStr('')
        r = parts[0]
        for q in parts[1:]:
            r = sym.PCONCAT(r, q) if r.sort() == sym.PSTR else z3.Concat(r, q)
        return VStr(r)

    def to_str(self, v, st):
        if isinstance(v, VStr):
            return v
        if isinstance(v, VInt):
            t = z3.simplify(v.t)
            if z3.is_int_value(t):
                return VStr(str(t.as_long()))
            if sym.STRING_MODE[0] == 'opaque':
                return VStr(sym.PSTR_OF_INT(v.t))
            return VStr(z3.If(v.t >= 0, z3.IntToStr(v.t), z3.Concat(z3.StringVal('-'), z3.IntToStr(-v.t))))
        if isinstance(v, VReal):
            t = z3.simplify(v.t)
            if z3.is_rational_value(t):
                f = float(t.numerator_as_long()) / float(t.denominator_as_long())
                return VStr(repr(f))
            return VStr(self.speclib.float_repr(v.t))
        raise EngineError(f'str() of {v!r}')

    def e_Lambda(self, e, st):
        return VFunc('<lambda>', self.make_local_function(e))

    def make_local_function(self, node):
        """Nested def / lambda: executed inline with the *caller's current* environment for free variables."""
        def call(I, st, args, kwargs):
            params = [a.arg for a in node.args.args]
            defaults = node.args.defaults
            saved = {p: st.env.get(p) for p in params}
            bound = dict(zip(params, args))
            for p, d in zip(params[len(params) - len(defaults):], defaults):
                if p not in bound:
                    bound[p] = kwargs.get(p, None) or I.eval(d, st)
            for kname, kval in kwargs.items():
                bound[kname] = kval
            if set(params) - set(bound):
                raise EngineError(f'missing arguments calling local function {getattr(node, "name", "<lambda>")}')
            st.env.update(bound)
            try:
                if isinstance(node, ast.Lambda):
                    return I.eval(node.body, st)
                outs = I.exec_block(node.body, st)
                if len(outs) != 1:
                    raise EngineError(f'local function {node.name} forks ({len(outs)} paths): give it its own contract')
                y, sig = outs[0]
                if y is not st:
                    raise EngineError(f'local function {node.name} forked state')
                return sig.value if sig is not None and sig.kind == 'return' else VNone()
            finally:
                for p, v in saved.items():
                    if v is None:
                        st.env.pop(p, None)
                    else:
                        st.env[p] = v
        return call

    def e_IfExp(self, e, st):
        c = self.truth(self.eval(e.test, st), st)
        cs = z3.simplify(c)
        if z3.is_true(cs):
            return self.eval(e.body, st)
        if z3.is_false(cs):
            return self.eval(e.orelse, st)
        st.guards.append(c)
        a = self.eval(e.body, st)
        st.guards.pop()
        st.guards.append(z3.Not(c))
        b = self.eval(e.orelse, st)
        st.guards.pop()
        return self.ite(c, a, b)

    def ite(self, c, a, b):
        cs = z3.simplify(c)
        if z3.is_true(cs):
            return a
        if z3.is_false(cs):
            return b
        if isinstance(a, VNone) and isinstance(b, VNone):
            return a
        if isinstance(a, VNone):
            if isinstance(b, VOpt):
                return VOpt(z3.Or(c, b.is_none), b.val)
            return VOpt(c, b)
        if isinstance(b, VNone):
            if isinstance(a, VOpt):
                return VOpt(z3.Or(z3.Not(c), a.is_none), a.val)
            return VOpt(z3.Not(c), a)
        if isinstance(a, VTuple) and isinstance(b, VTuple) and len(a.items) == len(b.items):
            return VTuple([self.ite(c, x, y) for x, y in zip(a.items, b.items)])
        if isinstance(a, VReal) and isinstance(b, (VReal, VInt)) and (a.inf is not None or getattr(b, 'inf', None) is not None) \
                or isinstance(b, VReal) and isinstance(a, (VReal, VInt)) and b.inf is not None:
            ai = getattr(a, 'inf', None)
            bi = getattr(b, 'inf', None)
            return VReal(z3.If(c, to_term(VReal(a.t) if isinstance(a, VReal) else a, 'real'),
                               to_term(VReal(b.t) if isinstance(b, VReal) else b, 'real')),
                         inf=z3.If(c, ai if ai is not None else z3.IntVal(0), bi if bi is not None else z3.IntVal(0)))
        k = self.join_kinds([a.kind, b.kind])
        if isinstance(a, VSeq) and isinstance(b, VSeq):
            return VSeq(a.ek, z3.If(c, a.length, b.length), z3.If(c, a.arr, b.arr), flavor=a.flavor, dtype=a.dtype)
        return from_term(z3.If(c, to_term(a, k), to_term(b, k)), k)

    def e_BoolOp(self, e, st):
        vals = []
        n_guard = 0
        is_and = isinstance(e.op, ast.And)
        for x in e.values:
            v = self.eval(x, st)
            t = self.truth(v, st)
            vals.append((v, t))
            st.guards.append(t if is_and else z3.Not(t))
            n_guard += 1
        for _ in range(n_guard):
            st.guards.pop()
        if all(isinstance(v, VBool) for v, _ in vals):
            ts = [t for _, t in vals]
            return VBool(z3.And(*ts) if is_and else z3.Or(*ts))
        # python value semantics: a and b -> b if a else a
        res = vals[-1][0]
        for v, t in reversed(vals[:-1]):
            res = self.ite(t, res, v) if is_and else self.ite(t, v, res)
        return res

    def e_UnaryOp(self, e, st):
        v = self.eval(e.operand, st)
        if isinstance(e.op, ast.Not):
            return VBool(z3.Not(self.truth(v, st)))
        if isinstance(e.op, ast.USub):
            if isinstance(v, VInt):
                return VInt(-v.t)
            if isinstance(v, VReal):
                return VReal(-v.t, inf=None if v.inf is None else -v.inf)
            if isinstance(v, VSeq):
                return self.lift1(v, lambda x: -x, v.ek)
        if isinstance(e.op, ast.UAdd):
            return v
        raise EngineError(f'unary {type(e.op).__name__} on {v!r}')

    def lift1(self, a, f, ek):
        i = z3.Int(fresh_name('i'))
        return VSeq(ek, a.length, z3.Lambda([i], f(a.arr[i])), flavor='array')

    def e_BinOp(self, e, st):
        a = self.eval(e.left, st)
        b = self.eval(e.right, st)
        return self.binop(e.op, a, b, st, node=e)

    def binop(self, op, a, b, st, node=None, inplace=False):
        txt = self.src(node) if node is not None else ''
        if isinstance(a, VBool) and not isinstance(op, (ast.BitAnd, ast.BitOr)):
            a = VInt(to_term(a, 'int'))
        if isinstance(b, VBool) and not isinstance(op, (ast.BitAnd, ast.BitOr)):
            b = VInt(to_term(b, 'int'))
        if isinstance(a, VStr) and isinstance(b, VStr) and isinstance(op, ast.Add):
            return VStr(sym.PCONCAT(a.t, b.t) if a.opaque else z3.Concat(a.t, b.t))
        if isinstance(a, VStr) and isinstance(op, ast.Mod):
            raise EngineError('% string formatting')
        if isinstance(a, VSeq) and a.flavor == 'series' or isinstance(b, VSeq) and b.flavor == 'series':
            return self.stubs.series_binop(self, st, op, a, b, inplace, txt)
        if isinstance(a, VSeq) and a.flavor == 'array' or isinstance(b, VSeq) and b.flavor == 'array':
            return self.array_binop(op, a, b, st, txt)
        if isinstance(a, VSeq) and isinstance(b, VSeq) and isinstance(op, ast.Add):
            r = self.stubs.seq_concat(self, st, a, b)
            if inplace:
                # list += list mutates in place
                a.ek, a.length, a.arr = r.ek, r.length, r.arr
                return a
            return r
        if isinstance(a, VSeq) and isinstance(b, VInt) and isinstance(op, ast.Mult):
            return self.stubs.seq_repeat(self, st, a, b)
        if isinstance(a, VSet) and isinstance(b, VSet):
            return self.stubs.set_binop(self, st, op, a, b)
        if isinstance(a, VDict) and isinstance(b, VDict) and isinstance(op, ast.Add) and a.flavor == 'counter':
            return self.stubs.counter_add(self, st, a, b)
        if isinstance(a, (VInt, VReal)) and isinstance(b, (VInt, VReal)):
            return self.num_binop(op, a, b, st, txt)
        raise EngineError(f'binop {type(op).__name__} on {a!r}, {b!r} in `{txt}`')

    def num_binop(self, op, a, b, st, txt=''):
        both_int = isinstance(a, VInt) and isinstance(b, VInt)
        x, y = (a.t, b.t) if both_int else (to_term(a, 'real'), to_term(b, 'real'))
        mk = (lambda t: VInt(z3.simplify(t) if _is_const(t) else t)) if both_int else (lambda t: VReal(t))
        if isinstance(op, ast.Add):
            r = mk(x + y)
        elif isinstance(op, ast.Sub):
            r = mk(x - y)
        elif isinstance(op, ast.Mult):
            r = mk(x * y)
        elif isinstance(op, ast.Div):
            yr = to_term(b, 'real')
            self.oblige(st, f'div0[{txt}]', yr != 0, text=txt)
            r = VReal(to_term(a, 'real') / yr)
        elif isinstance(op, ast.FloorDiv):
            self.oblige(st, f'div0[{txt}]', y != 0, text=txt)
            if both_int:
                r = VInt(self.floordiv(x, y))
            else:
                r = VReal(z3.ToReal(z3.ToInt(x / y)))
        elif isinstance(op, ast.Mod):
            self.oblige(st, f'div0[{txt}]', y != 0, text=txt)
            if both_int:
                r = VInt(self.pymod(x, y))
            else:
                raise EngineError('float modulo')
        elif isinstance(op, ast.Pow):
            xs, ys = z3.simplify(x), z3.simplify(y)
            if both_int and z3.is_int_value(xs) and z3.is_int_value(ys) and ys.as_long() >= 0:
                r = VInt(xs.as_long() ** ys.as_long())
            elif z3.is_int_value(ys) and 0 <= ys.as_long() <= 4:
                t = z3.IntVal(1) if both_int else z3.RealVal(1)
                for _ in range(ys.as_long()):
                    t = t * x
                r = mk(t)
            else:
                raise EngineError(f'power `{txt}`')
        elif isinstance(op, ast.BitAnd) and both_int:
            ys = z3.simplify(y)
            if z3.is_int_value(ys) and ys.as_long() >= 0 and (ys.as_long() + 1) & ys.as_long() == 0:
                self.oblige(st, f'bitand.nonneg[{txt}]', x >= 0, text=txt)
                r = VInt(self.pymod(x, z3.IntVal(ys.as_long() + 1)))     # x & (2^k - 1) == x mod 2^k for x >= 0
            else:
                raise EngineError(f'bitwise and with a non-mask `{txt}`')
        elif isinstance(op, ast.RShift) and both_int:
            ys = z3.simplify(y)
            if z3.is_int_value(ys) and 0 <= ys.as_long() < 64:
                r = VInt(self.floordiv(x, z3.IntVal(2 ** ys.as_long())))
            else:
                raise EngineError(f'shift by a symbolic amount `{txt}`')
        elif isinstance(op, ast.LShift) and both_int:
            ys = z3.simplify(y)
            if z3.is_int_value(ys) and 0 <= ys.as_long() < 64:
                r = VInt(x * (2 ** ys.as_long()))
            else:
                raise EngineError(f'shift by a symbolic amount `{txt}`')
        else:
            raise EngineError(f'operator {type(op).__name__}')
        if both_int and (a.dtype or b.dtype) and self.cur.get('numpy_scalars') and not isinstance(op, ast.Div):
            self.numpy_scalar_checks(a, b, r, st, txt)
        return r

    def numpy_scalar_checks(self, a, b, r, st, txt):
        """NEP 50 (NumPy >= 2): numpy-scalar (op) python-int computes in the scalar's dtype; the python int must
        fit that dtype (OverflowError otherwise) and the result must fit too (silent wrap otherwise)."""
        dt = a.dtype or b.dtype
        if dt not in DTYPE_RANGE:
            return
        lo, hi = DTYPE_RANGE[dt]
        for o in (a, b):
            if o.dtype is None:
                self.oblige(st, f'nep50.fits[{txt}:{dt}]', z3.And(o.t >= lo, o.t <= hi), text=txt)
        self.oblige(st, f'nowrap[{txt}:{dt}]', z3.And(r.t >= lo, r.t <= hi), text=txt)
        r.dtype = dt

    def floordiv(self, x, y):
        # python floor division for any sign of y (z3 div is euclidean: floor for y>0, ceil for y<0)
        return z3.If(y > 0, x / y, (-x) / (-y))

    def pymod(self, x, y):
        xs, ys = z3.simplify(x), z3.simplify(y)
        if z3.is_int_value(xs) and z3.is_int_value(ys) and ys.as_long() != 0:
            return z3.IntVal(xs.as_long() % ys.as_long())
        return self.speclib.PYMOD(x, y)

    def array_binop(self, op, a, b, st, txt):
        def elem(v, i):
            if isinstance(v, VSeq):
                return from_term(v.arr[i], v.ek)
            return v
        n = a.length if isinstance(a, VSeq) else b.length
        if isinstance(a, VSeq) and isinstance(b, VSeq):
            self.oblige(st, f'shape[{txt}]', a.length == b.length, text=txt)
        for v in (a, b):
            if isinstance(v, VSeq) and v.init is not None:
                j = z3.Int(fresh_name('j'))
                self.oblige(st, f'defined[{txt}]', z3.ForAll([j], z3.Implies(z3.And(j >= 0, j < v.length), v.init[j])))
        if isinstance(op, ast.Div) and not isinstance(b, VSeq):
            self.oblige(st, f'div0[{txt}]', to_term(b, 'real') != 0, text=txt)
        i = z3.Int(fresh_name('i'))
        saved_cur_div = self.cur.get('numpy_div', False)
        self.cur['numpy_div'] = True
        try:
            sub = State()
            sub.pc = st.pc
            sub.guards = list(st.guards) + [z3.BoolVal(False)]   # no per-element obligations from inside the lambda
            ea, eb = elem(a, i), elem(b, i)
            if isinstance(ea, VInt):
                ea = VInt(ea.t)
            if isinstance(eb, VInt):
                eb = VInt(eb.t)
            r = self.binop_noob(op, ea, eb)
        finally:
            self.cur['numpy_div'] = saved_cur_div
        return VSeq(r.kind, n, z3.Lambda([i], r.t), flavor='array')

    def binop_noob(self, op, a, b):
        both_int = isinstance(a, VInt) and isinstance(b, VInt)
        x, y = (a.t, b.t) if both_int else (to_term(a, 'real'), to_term(b, 'real'))
        mk = VInt if both_int else VReal
        if isinstance(op, ast.Add):
            return mk(x + y)
        if isinstance(op, ast.Sub):
            return mk(x - y)
        if isinstance(op, ast.Mult):
            return mk(x * y)
        if isinstance(op, ast.Div):
            return VReal(to_term(a, 'real') / to_term(b, 'real'))
        raise EngineError(f'array operator {type(op).__name__}')

    def e_Compare(self, e, st):
        left = self.eval(e.left, st)
        res = None
        for op, rn in zip(e.ops, e.comparators):
            right = self.eval(rn, st)
            c = self.compare(op, left, right, st, self.src(e))
            if isinstance(c, VSeq):
                if len(e.ops) != 1:
                    raise EngineError('chained array comparison')
                return c
            res = c.t if res is None else z3.And(res, c.t)
            left = right
        return VBool(res)

    def compare(self, op, a, b, st, txt=''):
        if isinstance(op, (ast.Is, ast.IsNot)):
            neg = isinstance(op, ast.IsNot)
            if isinstance(b, VNone):
                t = self.is_none(a)
            elif isinstance(a, VNone):
                t = self.is_none(b)
            else:
                raise EngineError('`is` on non-None')
            return VBool(z3.Not(t) if neg else t)
        if isinstance(op, (ast.In, ast.NotIn)):
            t = self.contains(b, a, st, txt)
            return VBool(z3.Not(t) if isinstance(op, ast.NotIn) else t)
        if (isinstance(a, VSeq) and a.flavor == 'array') or (isinstance(b, VSeq) and b.flavor == 'array'):
            if not (isinstance(a, VSeq) and isinstance(b, VSeq) and self.spec_mode):
                return self.array_compare(op, a, b, st, txt)
        if isinstance(op, ast.Eq):
            return VBool(self.equal(a, b, st))
        if isinstance(op, ast.NotEq):
            return VBool(z3.Not(self.equal(a, b, st)))
        if isinstance(a, (VInt, VReal, VBool)) and isinstance(b, (VInt, VReal, VBool)):
            both_int = not isinstance(a, VReal) and not isinstance(b, VReal)
            ai = getattr(a, 'inf', None)
            bi = getattr(b, 'inf', None)
            if ai is not None or bi is not None:
                # extended reals: order by (infinity class, finite value)
                ai = ai if ai is not None else z3.IntVal(0)
                bi = bi if bi is not None else z3.IntVal(0)
                x, y = a.t if isinstance(a, VReal) else to_term(a, 'real'), b.t if isinstance(b, VReal) else to_term(b, 'real')
                lt = z3.Or(ai < bi, z3.And(ai == 0, bi == 0, x < y))
                gt = z3.Or(ai > bi, z3.And(ai == 0, bi == 0, x > y))
                eq = z3.And(ai == bi, z3.Or(ai != 0, x == y))
                return VBool({ast.Lt: lt, ast.LtE: z3.Or(lt, eq), ast.Gt: gt, ast.GtE: z3.Or(gt, eq)}[type(op)])
            x, y = (to_term(a, 'int'), to_term(b, 'int')) if both_int else (to_term(a, 'real'), to_term(b, 'real'))
            return VBool({ast.Lt: x < y, ast.LtE: x <= y, ast.Gt: x > y, ast.GtE: x >= y}[type(op)])
        if isinstance(a, VStr) and isinstance(b, VStr):
            if a.opaque:
                le, ge = sym.PLE(a.t, b.t), sym.PLE(b.t, a.t)
                return VBool({ast.Lt: z3.And(le, a.t != b.t), ast.LtE: le, ast.Gt: z3.And(ge, a.t != b.t), ast.GtE: ge}[type(op)])
            return VBool({ast.Lt: a.t < b.t, ast.LtE: a.t <= b.t, ast.Gt: b.t < a.t, ast.GtE: b.t <= a.t}[type(op)])
        raise EngineError(f'comparison {type(op).__name__} on {a!r}, {b!r}')

    def array_compare(self, op, a, b, st, txt):
        i = z3.Int(fresh_name('i'))
        n = a.length if isinstance(a, VSeq) else b.length
        if isinstance(a, VSeq) and isinstance(b, VSeq):
            self.oblige(st, f'shape[{txt}]', a.length == b.length, text=txt)
        for v in (a, b):
            if isinstance(v, VSeq) and v.init is not None:
                j = z3.Int(fresh_name('j'))
                self.oblige(st, f'defined[{txt}]', z3.ForAll([j], z3.Implies(z3.And(j >= 0, j < v.length), v.init[j])))
        ea = from_term(a.arr[i], a.ek) if isinstance(a, VSeq) else a
        eb = from_term(b.arr[i], b.ek) if isinstance(b, VSeq) else b
        c = self.compare(op, ea, eb, st, txt)
        r = VSeq('bool', n, z3.Lambda([i], c.t), flavor='array', dtype='bool')
        if isinstance(op, ast.Eq) and isinstance(a, VSeq) and a.ek == 'int' and isinstance(b, VInt):
            r.eqsrc = (a.arr, b.t) + ((a.gathersrc,) if hasattr(a, 'gathersrc') else ())
        if isinstance(op, ast.Eq) and isinstance(a, VSeq) and a.ek == 'real' and isinstance(b, VInt) \
                and z3.is_int_value(z3.simplify(b.t)) and z3.simplify(b.t).as_long() == 0:
            r.zerosrc = a.arr
        return r

    def is_none(self, v):
        if isinstance(v, VNone):
            return z3.BoolVal(True)
        if isinstance(v, VOpt):
            return v.is_none
        return z3.BoolVal(False)

    def equal(self, a, b, st):
        if isinstance(a, VNone) or isinstance(b, VNone):
            return z3.And(self.is_none(a), self.is_none(b))
        if isinstance(a, VOpt) or isinstance(b, VOpt):
            an, bn = self.is_none(a), self.is_none(b)
            av = a.val if isinstance(a, VOpt) else a
            bv = b.val if isinstance(b, VOpt) else b
            return z3.Or(z3.And(an, bn), z3.And(z3.Not(an), z3.Not(bn), self.equal(av, bv, st)))
        if isinstance(a, (VInt, VReal, VBool)) and isinstance(b, (VInt, VReal, VBool)):
            if isinstance(a, VBool) and isinstance(b, VBool):
                return a.t == b.t
            if isinstance(a, VReal) or isinstance(b, VReal):
                return to_term(a, 'real') == to_term(b, 'real')
            return to_term(a, 'int') == to_term(b, 'int')
        if isinstance(a, VStr) and isinstance(b, VStr):
            return a.t == b.t
        if isinstance(a, VTuple) and isinstance(b, VTuple):
            if len(a.items) != len(b.items):
                return z3.BoolVal(False)
            return z3.And(*[self.equal(x, y, st) for x, y in zip(a.items, b.items)]) if a.items else z3.BoolVal(True)
        if isinstance(a, VSeq) and isinstance(b, VSeq):
            if a.arr is None or b.arr is None:
                return a.length == b.length
            i = z3.Int(fresh_name('i'))
            ea, eb = from_term(a.arr[i], a.ek), from_term(b.arr[i], b.ek)
            return z3.And(a.length == b.length,
                          z3.ForAll([i], z3.Implies(z3.And(i >= 0, i < a.length), self.equal(ea, eb, st))))
        if isinstance(a, VSet) and isinstance(b, VSet):
            x = z3.Const(fresh_name('x'), sort_of(a.ek))
            return z3.ForAll([x], a.mem[x] == b.mem[x])
        if isinstance(a, VOpaque) and isinstance(b, VOpaque) and a.t is not None and b.t is not None:
            return a.t == b.t
        if type(a) is not type(b):
            if isinstance(a, (VStr, VTuple, VInt, VReal, VBool)) and isinstance(b, (VStr, VTuple, VInt, VReal, VBool)):
                return z3.BoolVal(False)
        if isinstance(a, VStr) and isinstance(b, VStr) and a.opaque != b.opaque:
            raise EngineError('mixing opaque and theory strings')
        raise EngineError(f'equality on {a!r}, {b!r}')

    def contains(self, cont, x, st, txt=''):
        if isinstance(cont, VSet):
            if cont.ek == 'unknown':
                return z3.BoolVal(False)
            if isinstance(cont.ek, tuple) and cont.ek[0] == 'tuple' and isinstance(x, (VStr, VInt, VReal, VBool)):
                return z3.BoolVal(False)      # a scalar is never equal to a tuple
            return cont.mem[to_term(x, cont.ek)]
        if isinstance(cont, VDict):
            if cont.kk == 'unknown':
                return z3.BoolVal(False)
            return cont.dom[to_term(x, cont.kk)]
        if isinstance(cont, VSeq):
            if cont.arr is None:
                return z3.BoolVal(False)
            return self.seq_member(cont, x, st)
        if isinstance(cont, VTuple):
            return z3.Or(*[self.equal(y, x, st) for y in cont.items]) if cont.items else z3.BoolVal(False)
        if isinstance(cont, VStr) and isinstance(x, VStr):
            return sym.PCONTAINS(cont.t, x.t) if cont.opaque else z3.Contains(cont.t, x.t)
        raise EngineError(f'`in` on {cont!r}')

    def seq_member(self, cont, x, st):
        """`x in L` for a sequence: a membership predicate with an index witness keyed by the *value*
        (MEM(x) <=> exists i < len. L[i] == x).  Keyed-by-value skolems close the chains that nested
        exists/forall membership facts would otherwise open (matching loops)."""
        if any(self.stubs._mentions(cont.arr, b) or self.stubs._mentions(cont.length, b) for b in self.bound):
            # the sequence itself depends on a bound variable (e.g. L[:t] under `for t in ...`): plain existential
            i = z3.Int(fresh_name('i'))
            return z3.Exists([i], z3.And(i >= 0, i < cont.length, self.equal(from_term(cont.arr[i], cont.ek), x, st)))
        cont = self.stubs.materialize(self, st, cont)
        key = (cont.arr.get_id(), z3.simplify(cont.length).get_id())
        tbl = self.__dict__.setdefault('_mem_tbl', {})
        if key not in tbl:
            n = len(tbl)
            es = sort_of(cont.ek)
            name = f'mem{n}_{cont.arr.decl().name()}'
            MEM = z3.Function(name, es, z3.BoolSort())
            IDX = z3.Function('idx_' + name, es, z3.IntSort())
            i = z3.Int('i_' + name)
            xx = z3.Const('x_' + name, es)
            self.speclib.axiom(name + '.intro', z3.ForAll([i], z3.Implies(z3.And(i >= 0, i < cont.length), z3.And(
                MEM(cont.arr[i]), IDX(cont.arr[i]) >= 0, IDX(cont.arr[i]) < cont.length)), patterns=[cont.arr[i]]), name)
            self.speclib.axiom(name + '.elim', z3.ForAll([xx], z3.Implies(MEM(xx), z3.And(
                IDX(xx) >= 0, IDX(xx) < cont.length, cont.arr[IDX(xx)] == xx)), patterns=[MEM(xx)]), name)
            tbl[key] = MEM
        return tbl[key](to_term(x, cont.ek))

    def e_Attribute(self, e, st):
        # dotted stub name (np.zeros, itertools.combinations, ...)
        dotted = self.dotted(e)
        if dotted is not None:
            root = dotted.split('.')[0]
            if st.lookup(root) is None:
                canon = self.stubs.canonical(dotted)
                f = self.stubs.lookup(canon)
                if f is not None:
                    return VFunc(canon, f)
                c = self.callee_contract(e)
                if c is not None:
                    return VFunc(dotted, lambda I, st_, args, kwargs, c=c: I.call_contract(c, args, kwargs, st_))
                k = self.stubs.constant(canon)
                if k is not None:
                    return k
        base = self.eval(e.value, st)
        if isinstance(base, VObj):
            if e.attr in base.fields:
                return base.fields[e.attr]
            om = self.stubs.obj_method(base.cls, e.attr)
            if om is not None:
                return VFunc(f'{base.cls}.{e.attr}', lambda I, st_, args, kwargs, om=om, base=base: om(I, st_, base, *args, **kwargs),
                             self_value=base)
            c = self.callee_contract(e)
            if c is not None:
                return VFunc(e.attr, lambda I, st_, args, kwargs, c=c, base=base: I.call_contract(c, [base] + list(args), kwargs, st_))
            raise EngineError(f'object {base.cls} has no tracked field `{e.attr}`')
        if isinstance(base, VModule):
            raise EngineError(f'no stub for `{self.src(e)}`')
        m = self.stubs.method(base, e.attr)
        if m is not None:
            return VFunc(e.attr, lambda I, st_, args, kwargs, m=m, base=base: m(I, st_, base, *args, **kwargs), self_value=base)
        a = self.stubs.attribute(self, st, base, e.attr)
        if a is not None:
            return a
        raise EngineError(f'attribute `{e.attr}` on {base!r} (`{self.src(e)}`)')

    def dotted(self, e):
        parts = []
        n = e
        while isinstance(n, ast.Attribute):
            parts.append(n.attr)
            n = n.value
        if isinstance(n, ast.Name):
            parts.append(n.id)
            return '.'.join(reversed(parts))
        return None

    def e_Call(self, e, st):
        if self.is_inert_call(e):
            return VNone()
        # spec-only forms handled syntactically
        if isinstance(e.func, ast.Name):
            if e.func.id in ('all', 'any') and len(e.args) == 1 and isinstance(e.args[0], ast.GeneratorExp):
                return self.quantify(e.func.id, e.args[0], st)
            if e.func.id == 'old' and self.spec_mode:
                return self.eval_old(e.args[0], st)
            if e.func.id == 'pre' and self.spec_mode:
                return self.eval_pre(e.args[0], st)
            if e.func.id == 'prev' and self.spec_mode:
                saved = getattr(st, '_pre', None)
                st._pre = getattr(st, '_prev', None)
                try:
                    return self.eval_pre(e.args[0], st)
                finally:
                    st._pre = saved
            if e.func.id in ('forall', 'exists') and self.spec_mode:
                return self.quantify_lambda(e.func.id, e, st)
            if e.func.id == 'mkcounter' and self.spec_mode:
                return self.make_counter_value(e, st)
        if isinstance(e.func, ast.Attribute) and isinstance(e.func.value, ast.Name) and e.func.value.id == 'set' and e.func.attr == 'union' \
                and st.lookup('set') is None and len(e.args) == 1 and isinstance(e.args[0], ast.Starred) and not e.keywords:
            return self.stubs.set_union_all(self, st, self.eval(e.args[0].value, st))
        f = self.eval(e.func, st)
        args = []
        for a in e.args:
            if isinstance(a, ast.Starred):
                v = self.eval(a.value, st)
                if isinstance(v, VTuple):
                    args.extend(v.items)
                else:
                    args.append(('*', v))
            else:
                args.append(self.eval(a, st))
        kwargs = {k.arg: self.eval(k.value, st) for k in e.keywords}
        if isinstance(f, VFunc):
            if f.name in self.stubs.TRUSTED_NAMES:
                self.trusted.add(f.name)
            r = f.call(self, st, args, kwargs)
            return r if r is not None else VNone()
        raise EngineError(f'call of {f!r} (`{self.src(e)}`)')

    # ------------------------------------------------------------------ calls to functions under contract
    def call_contract(self, c, args, kwargs, st):
        if c.get('external'):
            # assumed contract of a function outside the repository / outside the subset (trusted, listed)
            names, defaults = list(c['param_names']), []
            self.trusted.add('assumed contract: ' + c['key'])
        else:
            self.applied.add(c['key'])
            fn = frontend.load_function(c['module'], c['qualname'])
            names = [a.arg for a in fn.node.args.args]
            defaults = fn.node.args.defaults
        bound = dict(zip(names, args))
        bound.update(kwargs)
        for p, d in zip(names[len(names) - len(defaults):], defaults):
            if p not in bound:
                bound[p] = self.const_value(ast.literal_eval(d))
        for pname in c.get('params', {}):
            if pname not in names and pname in kwargs:
                bound[pname] = kwargs[pname]
        # ghost INPUT parameters of the callee's contract (history variables): supplied by the caller's contract
        ghost_args = (self.cur.get('call_ghost_args') or {}).get(c['key']) or {}
        for pname in c.get('params', {}):
            if pname not in names and pname not in bound and pname in ghost_args:
                bound[pname] = self.spec(st, ghost_args[pname], raw=True)
        missing = set(names) - set(bound)
        if missing:
            raise EngineError(f"call of {c['qualname']}: missing {missing}")
        sub = State()
        sub.env = dict(bound)
        sub.glob = st.glob
        sub.pc = st.pc
        sub.guards = st.guards
        # callee globals declared in its contract but unknown to the caller: fresh (unconstrained)
        for g, ks in (c.get('globals') or {}).items():
            if g not in st.glob:
                st.glob[g] = self.make_param(g, ks, st)
        # generic element kinds of the callee's contract are instantiated from the actual arguments
        saved_subst = dict(sym.KIND_SUBST)
        for g, pname in (c.get('generics') or {}).items():
            actual = bound.get(pname)
            if isinstance(actual, VSeq) and actual.ek != 'unknown':
                sym.KIND_SUBST[g] = actual.ek
        try:
            return self._call_contract_body(c, names, bound, sub, st)
        finally:
            sym.KIND_SUBST.clear()
            sym.KIND_SUBST.update(saved_subst)

    def _call_contract_body(self, c, names, bound, sub, st):
        label = self._uniq(f"call.{c['qualname']}")
        for lab, expr in c.get('requires', []):
            goal = self.spec(sub, expr, contract=c)
            self.oblige(st, f'{label}.pre.{lab}', goal, text=expr, unique=False)
        if c.get('function_symbol') and c.get('pure') == '@function_symbol':
            return self.apply_function_symbol(c, names, sub, st)
        if c.get('pure'):
            # pure function whose contract gives its value as a spec term (ensures `result == <pure>` is part of
            # the callee's own obligations): usable under binders (comprehensions, quantifiers)
            return self.spec(sub, c['pure'], raw=True)
        sub.old = copy.deepcopy({**sub.glob, **sub.env})
        for m in c.get('modifies', []):
            if m.startswith('param:') and '.' in m:
                # field-granular frame: only obj.field may change
                pname, fld = m[6:].split('.', 1)
                obj = sub.env.get(pname)
                if not isinstance(obj, VObj):
                    raise EngineError(f"modifies `{m}` of {c['qualname']} not bound")
                if fld not in obj.fields:
                    continue      # attribute created by the callee; not tracked by the caller
                obj.fields[fld] = self.fresh_like(obj.fields[fld], f'{label}.{fld}', st)
                continue
            tgt = sub.env.get(m[6:]) if m.startswith('param:') else st.glob.get(m)
            if tgt is None:
                raise EngineError(f"modifies `{m}` of {c['qualname']} not bound")
            if m.startswith('param:') or isinstance(tgt, (VSeq, VSet, VDict, VObj, VMat)):
                self.havoc_value(st, tgt, label)
            else:
                st.glob[m] = self.fresh_like(tgt, m, st)
        res = self.make_result(c, label, st)
        sub.env['result'] = res
        for gname, ks in (c.get('ghost_out') or {}).items():
            sub.env[gname] = self.make_param(f'{label}.{gname}', ks, st)
        for lab, expr in c.get('ensures', []):
            self.assume(st, self.spec(sub, expr, contract=c))
        fs = c.get('function_symbol')
        if fs:
            fv = self.apply_function_symbol(c, names, sub, st)
            if isinstance(res, VSeq) and isinstance(fv, VSeq):
                # identical as values (same length, same cell array), not merely element-wise equal
                self.assume(st, z3.And(res.length == fv.length, res.arr == fv.arr))
            else:
                self.assume(st, self.equal(res, fv, st))
        # ghost outputs of the callee become caller-side ghosts (names chosen by the caller's contract)
        for gname, cname in ((self.cur.get('call_ghosts') or {}).get(c['key']) or {}).items():
            st.env[cname] = sub.env[gname]
        return res

    def apply_function_symbol(self, c, names, sub, st):
        """result == F(args): the callee is a deterministic function of (the parts it reads of) its arguments.
        Justification: purity is checked syntactically when the callee itself is verified (no globals, no RNG, no
        clock); listed as an assumption otherwise."""
        terms = []
        for n in c.get('function_args') or names:
            v = self.spec(sub, n, raw=True) if not n.isidentifier() else sub.env[n]
            terms.extend(self.flatten_terms(v))
        rk = c.get('returns')
        rks = list(rk) if isinstance(rk, (list, tuple)) else [rk]
        outs = []
        for j, k_ in enumerate(rks):
            kk = parse_kind(k_)
            F = z3.Function(f"{c['function_symbol']}{'' if len(rks) == 1 else j}", *[t.sort() for t in terms], sort_of(kk))
            outs.append(from_term(F(*terms), kk))
        return outs[0] if not isinstance(rk, (list, tuple)) else VTuple(outs)

    def flatten_terms(self, v):
        if isinstance(v, (VInt, VReal, VBool, VStr)):
            return [v.t]
        if isinstance(v, VSeq):
            return [v.length, v.arr] if v.arr is not None else [v.length]
        if isinstance(v, VTuple):
            return [t for x in v.items for t in self.flatten_terms(x)]
        if isinstance(v, VOpaque) and v.t is not None:
            return [v.t]
        if isinstance(v, VObj):
            return [t for f in sorted(v.fields) for t in self.flatten_terms(v.fields[f])]
        if isinstance(v, VNone):
            return []
        raise EngineError(f'cannot pass {v!r} to a function symbol')

    def make_result(self, c, label, st):
        rk = c.get('returns')
        if rk is None:
            return VNone()
        if isinstance(rk, (list, tuple)):
            return VTuple([self.make_param(f'{label}.ret{i}', k, st) for i, k in enumerate(rk)])
        return self.make_param(f'{label}.ret', rk, st)

    # ------------------------------------------------------------------ subscripts
    def e_Subscript(self, e, st):
        base = self.eval(e.value, st)
        sl = e.slice
        txt = self.src(e)
        if isinstance(base, VTuple) and not isinstance(sl, ast.Slice) and self.cur.get('row_fields'):
            key = self.eval(sl, st)
            if isinstance(key, VStr) and key.concrete() in self.cur['row_fields']:
                return base.items[self.cur['row_fields'].index(key.concrete())]
        if isinstance(base, VTuple):
            if isinstance(sl, ast.Slice):
                lo = self._const_int(sl.lower, st, 0)
                hi = self._const_int(sl.upper, st, len(base.items))
                return VTuple(base.items[lo:hi])
            i = self.eval(sl, st)
            ci = z3.simplify(to_term(i, 'int'))
            if z3.is_int_value(ci):
                n = ci.as_long()
                if not -len(base.items) <= n < len(base.items):
                    raise PyRaise('IndexError')
                return base.items[n]
            kinds = {x.kind for x in base.items}
            if len(kinds) == 1:
                self.oblige(st, f'bounds[{txt}]', z3.And(ci >= 0, ci < len(base.items)))
                r = base.items[-1]
                for j in range(len(base.items) - 2, -1, -1):
                    r = self.ite(ci == j, base.items[j], r)
                return r
            raise EngineError(f'symbolic index into heterogeneous tuple `{txt}`')
        if isinstance(base, VSeq):
            if isinstance(sl, ast.Slice):
                return self.stubs.seq_slice(self, st, base, sl, txt)
            idx = self.eval(sl, st)
            if isinstance(idx, VSeq):
                return self.stubs.fancy_index(self, st, base, idx, txt)
            if isinstance(idx, VTuple) and len(idx.items) == 1 and isinstance(idx.items[0], VSeq):
                return self.stubs.fancy_index(self, st, base, idx.items[0], txt)   # Y[np.where(...)]
            if isinstance(idx, VInt):
                ci = z3.simplify(idx.t)
                if z3.is_int_value(ci) and ci.as_long() < 0:
                    i = base.length + ci.as_long()
                    return self.seq_get(base, i, st, txt=txt)
            i = self.index_term(idx, base, st, txt, check=False)
            return self.seq_get(base, i, st, txt=txt)
        if isinstance(base, VMat) and isinstance(sl, ast.Tuple) and len(sl.elts) == 2 and isinstance(sl.elts[0], ast.Slice) \
                and sl.elts[0].lower is None and sl.elts[0].upper is None:
            # X[:, idx]: column selection (gather) -> matrix with len(idx) columns; X[:, j] -> column vector
            cidx = self.eval(sl.elts[1], st)
            r_, c_ = z3.Int(fresh_name('r')), z3.Int(fresh_name('c'))
            if isinstance(cidx, VInt):
                self.oblige(st, f'bounds[{txt}]', z3.And(cidx.t >= 0, cidx.t < base.cols), text=txt)
                return VSeq(base.ek, base.rows, z3.Lambda([r_], base.arr[r_][cidx.t]), flavor='array', dtype=base.dtype)
            if isinstance(cidx, VSeq):
                cidx = self.stubs.materialize(self, st, cidx)
                self.oblige(st, f'bounds[{txt}]', z3.ForAll([c_], z3.Implies(z3.And(c_ >= 0, c_ < cidx.length),
                            z3.And(cidx.arr[c_] >= 0, cidx.arr[c_] < base.cols))), text=txt)
                G = z3.Array(fresh_name('colsel'), z3.IntSort(), z3.ArraySort(z3.IntSort(), sort_of(base.ek)))
                self.assume(st, z3.ForAll([r_, c_], G[r_][c_] == base.arr[r_][cidx.arr[c_]], patterns=[G[r_][c_]]))
                return VMat(base.ek, base.rows, cidx.length, G, dtype=base.dtype)
            raise EngineError(f'column selection `{txt}`')
        if isinstance(base, VMat):
            idx = self.eval(sl, st)
            if isinstance(idx, VTuple) and len(idx.items) == 2:
                i, j = to_term(idx.items[0], 'int'), to_term(idx.items[1], 'int')
                self.oblige(st, f'bounds[{txt}]', z3.And(i >= 0, i < base.rows, j >= 0, j < base.cols), text=txt)
                r = from_term(base.arr[i][j], base.ek)
                if isinstance(r, VInt):
                    r.dtype = None
                return r
            i = to_term(idx, 'int')
            self.oblige(st, f'bounds[{txt}]', z3.And(i >= 0, i < base.rows), text=txt)
            return VSeq(base.ek, base.cols, base.arr[i], flavor='array', dtype=base.dtype)
        if isinstance(base, VDict):
            key = self.eval(sl, st)
            if base.kk == 'unknown':
                if base.default is not None:
                    return base.default
                self.oblige(st, f'key[{txt}]', z3.BoolVal(False), text=txt)
                raise EngineError('lookup in empty dict of unknown kind')
            kt = to_term(key, base.kk)
            if base.default is not None:
                return self.ite(base.dom[kt], from_term(base.val[kt], base.vk), base.default)
            self.oblige(st, f'key[{txt}]', base.dom[kt], text=txt)
            return from_term(base.val[kt], base.vk)
        if isinstance(base, VStr):
            return self.stubs.str_subscript(self, st, base, sl, txt)
        r = self.stubs.subscript(self, st, base, self.eval(sl, st) if not isinstance(sl, ast.Slice) else sl, txt)
        if r is not None:
            return r
        raise EngineError(f'subscript on {base!r} (`{txt}`)')

    def _const_int(self, node, st, default):
        if node is None:
            return default
        v = z3.simplify(self.eval(node, st).t)
        if not z3.is_int_value(v):
            raise EngineError('symbolic tuple slice')
        return v.as_long()

    # ------------------------------------------------------------------ comprehensions / quantifiers
    def e_ListComp(self, e, st):
        return self.stubs.comprehension(self, st, e, 'list')

    def e_GeneratorExp(self, e, st):
        return self.stubs.comprehension(self, st, e, 'list')

    def e_SetComp(self, e, st):
        return self.stubs.comprehension(self, st, e, 'set')

    def e_DictComp(self, e, st):
        return self.stubs.dict_comprehension(self, st, e)

    def quantify(self, which, gen, st):
        """all(P for x in range(a,b)) / all(P for x in seq) / any(...)  ->  ForAll / Exists."""
        bound, conds = [], []
        saved = {}
        for comp in gen.generators:
            it = comp.iter
            if isinstance(it, ast.Call) and isinstance(it.func, ast.Name) and it.func.id == 'range':
                a = [self.eval(x, st) for x in it.args]
                lo, hi = (z3.IntVal(0), a[0].t) if len(a) == 1 else (a[0].t, a[1].t)
                if not isinstance(comp.target, ast.Name):
                    raise EngineError('quantifier target')
                v = z3.Int(fresh_name(comp.target.id))
                saved[comp.target.id] = st.env.get(comp.target.id)
                st.env[comp.target.id] = VInt(v)
                bound.append(v)
                conds.append(z3.And(v >= lo, v < hi))
            else:
                itv = self.eval(it, st)
                if isinstance(itv, VSet):
                    x = z3.Const(fresh_name('x'), sort_of(itv.ek))
                    bound.append(x)
                    conds.append(itv.mem[x])
                    names = set()
                    self._target_names(comp.target, names)
                    for nme in names:
                        saved[nme] = st.env.get(nme)
                    self.assign(comp.target, from_term(x, itv.ek), st)
                else:
                    n, elem = self.iter_of_value(itv, st)
                    v = z3.Int(fresh_name('q'))
                    bound.append(v)
                    conds.append(z3.And(v >= 0, v < n))
                    names = set()
                    self._target_names(comp.target, names)
                    for nme in names:
                        saved[nme] = st.env.get(nme)
                    self.assign(comp.target, elem(v), st)
            for c in comp.ifs:
                conds.append(self.truth(self.eval(c, st), st))
        st.guards.append(z3.And(*conds))
        self.bound.extend(bound)
        try:
            body = self.truth(self.eval(gen.elt, st), st)
        finally:
            del self.bound[len(self.bound) - len(bound):]
        st.guards.pop()
        for nme, old in saved.items():
            if old is None:
                st.env.pop(nme, None)
            else:
                st.env[nme] = old
        if which == 'all':
            return VBool(z3.ForAll(bound, z3.Implies(z3.And(*conds), body)))
        return VBool(z3.Exists(bound, z3.And(z3.And(*conds), body)))

    def quantify_lambda(self, which, e, st):
        """forall(lambda v: P) with v: int; forall(lambda v: P, 'str') for other sorts (spec only)."""
        lam = e.args[0]
        kinds = [parse_kind(ast.literal_eval(a)) for a in e.args[1:]] or ['int'] * len(lam.args.args)
        bound, saved = [], {}
        for a, k in zip(lam.args.args, kinds):
            v = z3.Const(fresh_name(a.arg), sort_of(k))
            bound.append(v)
            saved[a.arg] = st.env.get(a.arg)
            st.env[a.arg] = from_term(v, k)
        self.bound.extend(bound)
        try:
            body = self.truth(self.eval(lam.body, st), st)
        finally:
            del self.bound[len(self.bound) - len(bound):]
        for nme, old in saved.items():
            if old is None:
                st.env.pop(nme, None)
            else:
                st.env[nme] = old
        return VBool(z3.ForAll(bound, body) if which == 'forall' else z3.Exists(bound, body))

    def make_counter_value(self, e, st):
        """mkcounter(lambda y: <int expr>, "Kind"): a Counter value given by a function of its key (spec only; used to pass a
        ghost history to a callee's contract)."""
        lam = e.args[0]
        k = parse_kind(ast.literal_eval(e.args[1]))
        y = z3.Const(fresh_name(lam.args.args[0].arg), sort_of(k))
        saved = st.env.get(lam.args.args[0].arg)
        st.env[lam.args.args[0].arg] = from_term(y, k)
        self.bound.append(y)
        try:
            body = self.eval(lam.body, st)
        finally:
            self.bound.pop()
            if saved is None:
                st.env.pop(lam.args.args[0].arg, None)
            else:
                st.env[lam.args.args[0].arg] = saved
        d = VDict(k, 'int', z3.K(sort_of(k), z3.BoolVal(True)), z3.Lambda([y], to_term(body, 'int')), None, default=VInt(0), flavor='counter')
        return d

    # ------------------------------------------------------------------ spec evaluation
    def spec(self, st, expr, pre=None, contract=None, raw=False):
        """Evaluate a contract expression (python syntax) in state st; returns a z3 Bool (or the V if raw)."""
        node = ast.parse(expr, mode='eval').body
        self.spec_mode += 1
        saved_pre = getattr(st, '_pre', None)
        st._pre = pre
        # no safety obligations are generated while evaluating specifications
        st.guards.append(z3.BoolVal(False))
        n_ob = len(self.obligations)
        try:
            v = self.eval(node, st)
        finally:
            st.guards.pop()
            del self.obligations[n_ob:]
            st._pre = saved_pre
            self.spec_mode -= 1
        if raw:
            return v
        return self.truth(v, st)

    def eval_old(self, node, st):
        sub = State()
        sub.env = st.old
        sub.glob = {}
        sub.pc = st.pc
        sub.guards = st.guards
        sub.old = st.old
        for g in st.ghost_idx:
            if g in st.env and g not in sub.env:
                sub.env = dict(sub.env)
                sub.env[g] = st.env[g]
        # bound (quantified) variables stay visible inside old(...)
        extra = {k: v for k, v in st.env.items() if k not in sub.env and isinstance(v, (VInt, VReal, VBool, VStr))}
        if extra:
            sub.env = {**sub.env, **extra}
        return self.eval(node, sub)

    def eval_pre(self, node, st):
        pre = getattr(st, '_pre', None)
        if pre is None:
            raise EngineError('pre(...) outside a loop invariant')
        sub = State()
        sub.env = dict(pre)
        for k, v in st.env.items():
            if k not in sub.env and isinstance(v, (VInt, VReal, VBool, VStr)):
                sub.env[k] = v
        for g in st.ghost_idx:
            if g in st.env:
                sub.env[g] = st.env[g]
        sub.pc = st.pc
        sub.guards = st.guards
        sub.old = st.old
        return self.eval(node, sub)


def _has_quantifier(t):
    seen = set()
    stack = [t]
    while stack:
        x = stack.pop()
        if x.get_id() in seen:
            continue
        seen.add(x.get_id())
        if z3.is_quantifier(x):
            return True
        stack.extend(x.children())
    return False


def _is_const(t):
    return z3.is_int_value(z3.simplify(t))
