"""Library stubs: assumed contracts of everything outside the repository (the trusted base).

Every stub that is used by a run is recorded in the evidence (`trusted_base`).
"""
from __future__ import annotations

import ast

import z3

from .sym import (DTYPE_RANGE, EngineError, V, VBool, VDict, VFunc, VInt, VMat, VModule, VNone, VObj, VOpaque, VOpt,
                  VReal, VSeq, VSet, VStr, VTuple, fresh_name, fresh_value, from_term, sort_of, to_term)

MODULES = {'np': 'numpy', 'numpy': 'numpy', 'pd': 'pandas', 'itertools': 'itertools', 'random': 'random',
           'time': 'time', 'os': 'os', 'operator': 'operator', 'xxhash': 'xxhash', 'csv': 'csv', 'json': 'json',
           'gzip': 'gzip', 'math': 'math'}

_FUNCS: dict = {}
_METHODS: dict = {}
TRUSTED_NAMES: set = set()


def stub(*names):
    def deco(f):
        for n in names:
            _FUNCS[n] = f
            TRUSTED_NAMES.add(n)
        return f
    return deco


def canonical(dotted: str) -> str:
    head, _, rest = dotted.partition('.')
    if head in MODULES and rest:
        return MODULES[head] + '.' + rest
    return dotted


def lookup(name):
    return _FUNCS.get(name)


def method_lookup(v, name):
    for cls in type(v).__mro__:
        f = _METHODS.get((cls, name))
        if f is not None:
            return f
    return None


def method(v, name):
    return method_lookup(v, name)


def constant(canon):
    if canon == 'numpy.inf':
        # +infinity as an extended real (only comparisons / assignment are supported on it)
        return VReal(z3.Real('np.inf'), inf=z3.IntVal(1))
    if canon in ('numpy.int32', 'numpy.uint32', 'numpy.float32', 'numpy.int64', 'numpy.float64'):
        return VOpaque('dtype:' + canon.split('.')[1])
    return None


def _int(v):
    return to_term(v, 'int')


def dtype_of(dt, default='float64'):
    if dt is None:
        return default
    if isinstance(dt, VOpaque) and dt.tag.startswith('dtype:'):
        return dt.tag.split(':')[1]
    if isinstance(dt, VFunc) and dt.name.startswith('numpy.'):
        return dt.name.split('.')[1]
    if isinstance(dt, VFunc) and dt.name in ('int', 'float', 'str', 'bool'):
        return {'int': 'int64', 'float': 'float64', 'str': 'str', 'bool': 'bool'}[dt.name]
    if isinstance(dt, VStr) and dt.concrete() is not None:
        return dt.concrete()
    raise EngineError(f'dtype {dt!r}')


def _real(v):
    return to_term(v, 'real')


# ----------------------------------------------------------------------------- builtins


@stub('len')
def s_len(I, st, args, kwargs):
    v = args[0]
    if isinstance(v, VSeq):
        return VInt(v.length)
    if isinstance(v, VTuple):
        return VInt(len(v.items))
    if isinstance(v, VStr):
        from . import sym as _sym
        if v.opaque:
            return VInt(_sym.PLEN(v.t))
        return VInt(z3.Length(v.t))
    if isinstance(v, VDict):
        if v.size is None:
            raise EngineError('len of dict without size ghost')
        return VInt(v.size)
    if isinstance(v, VSet):
        if v.card is None:
            raise EngineError('len of set without cardinality ghost')
        return VInt(v.card)
    if isinstance(v, VOpaque) and v.tag == 'PresetDict':
        return VInt(_psym()['PD_LEN'](v.t))
    if isinstance(v, VObj):
        c = I.callee_contract(ast.Attribute(value=ast.Name(id='self', ctx=ast.Load()), attr='__len__', ctx=ast.Load()))
        if c is not None:
            return I.call_contract(c, [v], {}, st)
    raise EngineError(f'len of {v!r}')


def mk_range(lo, hi, step=None):
    i = z3.Int(fresh_name('i'))
    n = z3.If(hi > lo, hi - lo, z3.IntVal(0))
    return VSeq('int', z3.simplify(n) if z3.is_int_value(z3.simplify(n)) else n, z3.Lambda([i], lo + i), flavor='tuple')


@stub('range', 'prange')
def s_range(I, st, args, kwargs):
    a = [_int(x) for x in args]
    if len(a) == 1:
        return mk_range(z3.IntVal(0), a[0])
    if len(a) == 2:
        return mk_range(a[0], a[1])
    step = z3.simplify(a[2])
    if z3.is_int_value(step) and step.as_long() == 1:
        return mk_range(a[0], a[1])
    raise EngineError('range with step')


@stub('enumerate')
def s_enumerate(I, st, args, kwargs):
    n, elem = I.iter_of_value(args[0], st)
    k = z3.Int(fresh_name('k'))
    e = elem(k)
    ek = ('tuple', 'int', e.kind)
    return VSeq(ek, n, z3.Lambda([k], to_term(VTuple([VInt(k), e]), ek)), flavor='tuple')


@stub('zip')
def s_zip(I, st, args, kwargs):
    views = [I.iter_of_value(a, st) for a in args]
    k = z3.Int(fresh_name('k'))
    es = [el(k) for _, el in views]
    ek = ('tuple',) + tuple(e.kind for e in es)
    n = views[0][0]
    for m, _ in views[1:]:
        n = z3.If(m < n, m, n)
    return VSeq(ek, n, z3.Lambda([k], to_term(VTuple(es), ek)), flavor='tuple')


@stub('int')
def s_int(I, st, args, kwargs):
    v = args[0]
    if isinstance(v, VInt):
        return VInt(v.t)
    if isinstance(v, VBool):
        return VInt(_int(v))
    if isinstance(v, VReal):
        return VInt(I.trunc(v.t))
    if isinstance(v, VStr):
        return VInt(z3.StrToInt(v.t))
    raise EngineError(f'int() of {v!r}')


@stub('float', 'numpy.float32', 'numpy.float64')
def s_float(I, st, args, kwargs):
    v = args[0]
    if isinstance(v, (VInt, VBool, VReal)):
        return VReal(_real(v))
    if isinstance(v, VStr):
        return VReal(I.speclib.str_to_float(v.t))
    raise EngineError(f'float() of {v!r}')


@stub('numpy.int32', 'numpy.int64')
def s_npint(I, st, args, kwargs):
    return s_int(I, st, args, kwargs)


@stub('numpy.uint32')
def s_npuint32(I, st, args, kwargs):
    v = s_int(I, st, args, kwargs)
    return VInt(I.pymod(v.t, z3.IntVal(2**32)))


@stub('hash')
def s_hash(I, st, args, kwargs):
    """hash(x): an uninterpreted deterministic function of the value (64-bit signed)."""
    v = args[0]
    f = z3.Function('pyhash_' + str(sort_of(v.kind)), sort_of(v.kind), z3.IntSort())
    return VInt(f(to_term(v, v.kind)))


@stub('str')
def s_str(I, st, args, kwargs):
    return I.to_str(args[0], st)


@stub('bool')
def s_bool(I, st, args, kwargs):
    return VBool(I.truth(args[0], st))


@stub('abs', 'numpy.abs')
def s_abs(I, st, args, kwargs):
    v = args[0]
    if isinstance(v, VInt):
        return VInt(z3.If(v.t >= 0, v.t, -v.t))
    if isinstance(v, VReal):
        return VReal(z3.If(v.t >= 0, v.t, -v.t))
    raise EngineError('abs')


@stub('min', 'max')
def s_minmax(I, st, args, kwargs, which=None):
    raise EngineError('min/max: dispatched by name')


def _minmax(which):
    def f(I, st, args, kwargs):
        if len(args) == 1 and isinstance(args[0], VObj) and args[0].cls == 'DictValues':
            return dict_values_extreme(I, st, args[0].fields['dict'], which)
        if len(args) == 1 and isinstance(args[0], VSeq) and 'key' not in kwargs:
            return seq_extreme(I, st, args[0], which)
        if len(args) >= 2 and all(isinstance(a, (VInt, VReal, VBool)) for a in args):
            r = args[0]
            for a in args[1:]:
                c = I.compare(ast.Lt() if which == 'min' else ast.Gt(), a, r, st).t
                r = I.ite(c, a, r)
            return r
        raise EngineError(f'{which} of {args!r}')
    return f


_FUNCS['min'] = _minmax('min')
_FUNCS['max'] = _minmax('max')


def materialize(I, st, a):
    """Replace a lambda-defined cell array by a named array with a pointwise axiom (needed as a trigger)."""
    if a.arr is None or z3.is_const(a.arr) and a.arr.decl().kind() == z3.Z3_OP_UNINTERPRETED:
        return a
    if any(_mentions(a.arr, b) for b in I.bound):
        return a      # depends on a variable bound by an enclosing quantifier: cannot be named by a constant
    tbl = I.__dict__.setdefault('_mat_tbl', {})
    key = a.arr.get_id()
    if key not in tbl:
        i = z3.Int(fresh_name('i'))
        nm = fresh_name('mat')
        G = z3.Array(nm, z3.IntSort(), sort_of(a.ek))
        body = z3.simplify(a.arr[i])
        try:
            ax = z3.ForAll([i], G[i] == a.arr[i], patterns=[G[i], body])
        except z3.Z3Exception:
            ax = z3.ForAll([i], G[i] == a.arr[i], patterns=[G[i]])
        # definitional (conservative) axiom about a fresh name: registered globally, selected by relevance
        I.speclib.axiom(nm + '.def', ax, nm)
        tbl[key] = (G, a.arr)
    G = tbl[key][0]
    return VSeq(a.ek, a.length, G, init=a.init, flavor=a.flavor, dtype=a.dtype)


def seq_extreme(I, st, a, which):
    """max/min of a non-empty numeric sequence: bound on every element and attained."""
    a = materialize(I, st, a)
    I.oblige(st, f'nonempty[{which}]', a.length > 0)
    if a.init is not None:
        j = z3.Int(fresh_name('j'))
        I.oblige(st, f'defined[{which}]', z3.ForAll([j], z3.Implies(z3.And(j >= 0, j < a.length), a.init[j])))
    m = fresh_value(a.ek, which)
    i = z3.Int(fresh_name('i'))
    w = z3.Int(fresh_name('w'))
    cmp_ = (a.arr[i] <= m.t) if which == 'max' else (a.arr[i] >= m.t)
    I.assume(st, z3.ForAll([i], z3.Implies(z3.And(i >= 0, i < a.length), cmp_), patterns=[a.arr[i]]))
    I.assume(st, z3.And(w >= 0, w < a.length, a.arr[w] == m.t))
    if isinstance(m, VInt):
        m.dtype = a.dtype
    return m


@stub('numpy.max', 'numpy.amax')
def s_npmax(I, st, args, kwargs):
    return seq_extreme(I, st, args[0], 'max')


@stub('numpy.min', 'numpy.amin')
def s_npmin(I, st, args, kwargs):
    return seq_extreme(I, st, args[0], 'min')


@stub('isinstance')
def s_isinstance(I, st, args, kwargs):
    raise EngineError('isinstance needs concrete handling')


@stub('tuple')
def s_tuple(I, st, args, kwargs):
    v = args[0]
    if isinstance(v, VTuple):
        return v
    if isinstance(v, VSeq):
        return VSeq(v.ek, v.length, v.arr, flavor='tuple')
    raise EngineError('tuple()')


@stub('list')
def s_list(I, st, args, kwargs):
    if not args:
        return VSeq('unknown', z3.IntVal(0), None)
    v = args[0]
    if isinstance(v, VSeq):
        return VSeq(v.ek, v.length, v.arr, flavor='list')
    if isinstance(v, VTuple):
        return I.seq_from_items(v.items, st)
    if isinstance(v, VSet):
        n, elem = I.iter_of_value(v, st)
        k = z3.Int(fresh_name('k'))
        return VSeq(v.ek, n, z3.Lambda([k], to_term(elem(k), v.ek)))
    raise EngineError(f'list() of {v!r}')


@stub('sum')
def s_sum(I, st, args, kwargs):
    v = args[0]
    if isinstance(v, VSeq):
        return I.speclib.seq_sum(I, st, v)
    raise EngineError('sum()')


# ----------------------------------------------------------------------------- sets


def set_from_items(I, st, items):
    if not items:
        return VSet('unknown', None, z3.IntVal(0))
    ek = I.join_kinds([x.kind for x in items])
    mem = z3.K(sort_of(ek), z3.BoolVal(False))
    for x in items:
        mem = z3.Store(mem, to_term(x, ek), z3.BoolVal(True))
    return VSet(ek, mem, None)


@stub('set')
def s_set(I, st, args, kwargs):
    if not args:
        return VSet('unknown', None, z3.IntVal(0))
    v = args[0]
    if isinstance(v, VSet):
        return VSet(v.ek, v.mem, v.card)
    if isinstance(v, VTuple):
        return set_from_items(I, st, v.items)
    if isinstance(v, VSeq):
        if v.arr is None:
            return VSet('unknown', None, z3.IntVal(0))
        if getattr(v, 'splitsrc', None) is not None:
            return split_set(I, st, v.splitsrc)
        x = z3.Const(fresh_name('x'), sort_of(v.ek))
        i = z3.Int(fresh_name('i'))
        mem = z3.Array(fresh_name('setof'), sort_of(v.ek), z3.BoolSort())
        wit = z3.Function(fresh_name('setwit'), sort_of(v.ek), z3.IntSort())
        # x in set(L)  <=>  exists i. L[i] == x   (skolemised both ways)
        I.assume(st, z3.ForAll([i], z3.Implies(z3.And(i >= 0, i < v.length), mem[v.arr[i]]), patterns=[v.arr[i]]))
        I.assume(st, z3.ForAll([x], z3.Implies(mem[x], z3.And(wit(x) >= 0, wit(x) < v.length, v.arr[wit(x)] == x)),
                               patterns=[mem[x]]))
        card = z3.Int(fresh_name('card'))
        I.assume(st, z3.And(card >= 0, card <= v.length, z3.Implies(v.length > 0, card > 0)))
        # a duplicate-free list has as many members as cells (finite-set fact)
        j = z3.Int(fresh_name('j'))
        I.assume(st, z3.Implies(z3.ForAll([i, j], z3.Implies(z3.And(0 <= i, i < j, j < v.length), v.arr[i] != v.arr[j])),
                                card == v.length))
        return VSet(v.ek, mem, card)
    if isinstance(v, VDict):
        return VSet(v.kk, v.dom, v.size)
    raise EngineError(f'set() of {v!r}')


def _fix_set_kind(s, other_kind):
    if s.ek == 'unknown':
        s.ek = other_kind
        s.mem = z3.K(sort_of(other_kind), z3.BoolVal(False))


def set_binop(I, st, op, a, b):
    if a.ek == 'unknown':
        _fix_set_kind(a, b.ek)
    if b.ek == 'unknown':
        _fix_set_kind(b, a.ek)
    x = z3.Const(fresh_name('x'), sort_of(a.ek))
    if isinstance(op, ast.Sub):
        body = z3.And(a.mem[x], z3.Not(b.mem[x]))
    elif isinstance(op, ast.BitOr):
        body = z3.Or(a.mem[x], b.mem[x])
    elif isinstance(op, ast.BitAnd):
        body = z3.And(a.mem[x], b.mem[x])
    else:
        raise EngineError('set operator')
    # named membership array with forward triggers on the operands' membership terms
    mem = z3.Array(fresh_name('setop'), sort_of(a.ek), z3.BoolSort())
    pats = [mem[x]]
    for src in (a.mem, b.mem):
        if z3.is_const(src) and src.decl().kind() == z3.Z3_OP_UNINTERPRETED:
            pats.append(src[x])
    I.assume(st, z3.ForAll([x], mem[x] == body, patterns=pats))
    card = z3.Int(fresh_name('card'))
    I.assume(st, card >= 0)
    if isinstance(op, (ast.Sub, ast.BitAnd)) and a.card is not None:
        I.assume(st, card <= a.card)
    if isinstance(op, ast.Sub) and a.card is not None and b.card is not None:
        # |A \ B| = |A| - |B| when B is a subset of A (finite-set fact)
        I.assume(st, z3.Implies(z3.ForAll([x], z3.Implies(b.mem[x], a.mem[x])), card == a.card - b.card))
    return VSet(a.ek, mem, card)


def _as_set(I, st, v):
    if isinstance(v, VSet):
        return v
    return s_set(I, st, [v], {})


def m_set_difference(I, st, s, other):
    r = set_binop(I, st, ast.Sub(), s, _as_set(I, st, other))
    # |A \ B| == 0  <=>  A subset of B : expose emptiness exactly
    x = z3.Const(fresh_name('x'), sort_of(s.ek))
    I.assume(st, (r.card == 0) == z3.ForAll([x], z3.Not(r.mem[x])))
    return r


_METHODS[(VSet, 'difference')] = m_set_difference
_METHODS[(VSet, 'union')] = lambda I, st, s, other: set_binop(I, st, ast.BitOr(), s, _as_set(I, st, other))


def m_set_add(I, st, s, x):
    _fix_set_kind(s, x.kind)
    xt = to_term(x, s.ek)
    if s.card is not None:
        s.card = z3.If(s.mem[xt], s.card, s.card + 1)
    s.mem = z3.Store(s.mem, xt, z3.BoolVal(True))
    return VNone()


_METHODS[(VSet, 'add')] = m_set_add


def m_set_remove(I, st, s, x):
    xt = to_term(x, s.ek)
    I.oblige(st, 'key[set.remove]', s.mem[xt])
    if s.card is not None:
        s.card = s.card - 1
    s.mem = z3.Store(s.mem, xt, z3.BoolVal(False))
    return VNone()


_METHODS[(VSet, 'remove')] = m_set_remove


# ----------------------------------------------------------------------------- sequences


def _fix_seq_kind(s, k):
    if s.ek == 'unknown':
        s.ek = k
        s.arr = z3.K(z3.IntSort(), to_term(fresh_value(k, 'dflt'), k))


def m_append(I, st, s, x):
    if isinstance(x, VOpt) and not (isinstance(s.ek, tuple) and s.ek[0] == 'opt'):
        # appending an Optional into a list of plain values: the value must not be None here
        I.oblige(st, 'not_none[append]', z3.Not(x.is_none))
        x = x.val
    _fix_seq_kind(s, x.kind)
    if isinstance(s.ek, tuple) and s.ek[0] == 'opaque' and not (isinstance(x, VOpaque) and x.t is not None):
        x = fresh_value(s.ek, 'untracked')      # an untracked object stored in a list of untracked objects
    s.arr = z3.Store(s.arr, s.length, to_term(x, s.ek))
    s.length = s.length + 1
    return VNone()


_METHODS[(VSeq, 'append')] = m_append


def _named(arr):
    return z3.is_const(arr) and arr.decl().kind() == z3.Z3_OP_UNINTERPRETED


def seq_concat(I, st, a, b):
    if a.arr is None:
        return VSeq(b.ek, b.length, b.arr, flavor=a.flavor)
    if b.arr is None:
        return VSeq(a.ek, a.length, a.arr, flavor=a.flavor)
    # named result with forward triggers on the operands' cells (so that offsets la + j exist as ground terms)
    a2, b2 = materialize(I, st, a), materialize(I, st, b)
    i = z3.Int(fresh_name('i'))
    C = z3.Array(fresh_name('concat'), z3.IntSort(), sort_of(a.ek))
    la, lb = a2.length, b2.length
    I.assume(st, z3.ForAll([i], z3.Implies(z3.And(i >= 0, i < la), C[i] == a2.arr[i]), patterns=[C[i], a2.arr[i]]))
    I.assume(st, z3.ForAll([i], z3.Implies(z3.And(i >= 0, i < lb), C[la + i] == b2.arr[i]), patterns=[b2.arr[i]]))
    I.assume(st, z3.ForAll([i], z3.Implies(z3.And(i >= la, i < la + lb), C[i] == b2.arr[i - la]), patterns=[C[i]]))
    return VSeq(a.ek, la + lb, C, flavor=a.flavor)


def seq_repeat(I, st, a, n):
    c = z3.simplify(a.length)
    if z3.is_int_value(c) and c.as_long() == 1:
        i = z3.Int(fresh_name('i'))
        x = a.arr[0]
        return VSeq(a.ek, z3.If(n.t > 0, n.t, z3.IntVal(0)), z3.Lambda([i], x), flavor=a.flavor)
    raise EngineError('list repetition of len != 1')


def seq_slice(I, st, base, sl, txt):
    if sl.step is not None:
        raise EngineError('slice step')
    n = base.length
    lo = _int(I.eval(sl.lower, st)) if sl.lower is not None else z3.IntVal(0)
    hi = _int(I.eval(sl.upper, st)) if sl.upper is not None else n
    # python clamps slice bounds (negative bounds wrap once)
    def clamp(t):
        t = z3.If(t < 0, t + n, t)
        return z3.If(t < 0, z3.IntVal(0), z3.If(t > n, n, t))
    lo_c = clamp(lo) if sl.lower is not None else lo
    hi_c = clamp(hi) if sl.upper is not None else hi
    ln = z3.If(hi_c > lo_c, hi_c - lo_c, z3.IntVal(0))
    i = z3.Int(fresh_name('i'))
    arr = z3.Lambda([i], base.arr[lo_c + i]) if base.arr is not None else None
    init = None
    if base.init is not None:
        init = z3.Lambda([i], base.init[lo_c + i])
    return VSeq(base.ek, ln, arr, init=init, flavor=base.flavor, dtype=base.dtype)


def fancy_index(I, st, base, idx, txt):
    """a[idx] with idx an int array (gather) or a bool mask (filter)."""
    if idx.ek == 'bool':
        w = where_indices(I, st, idx)
        return fancy_index(I, st, base, w, txt)
    j = z3.Int(fresh_name('j'))
    if idx.init is not None:
        I.oblige(st, f'defined[{txt}.index]', z3.ForAll([j], z3.Implies(z3.And(j >= 0, j < idx.length), idx.init[j])),
                 text=txt)
    I.oblige(st, f'bounds[{txt}]', z3.ForAll([j], z3.Implies(
        z3.And(j >= 0, j < idx.length), z3.And(idx.arr[j] >= 0, idx.arr[j] < base.length))), text=txt)
    if base.init is not None:
        I.oblige(st, f'defined[{txt}]', z3.ForAll([j], z3.Implies(z3.And(j >= 0, j < idx.length), base.init[idx.arr[j]])))
    i = z3.Int(fresh_name('i'))
    G = z3.Array(fresh_name('gather'), z3.IntSort(), sort_of(base.ek))
    I.assume(st, z3.ForAll([i], G[i] == base.arr[idx.arr[i]], patterns=[G[i]]))
    r = VSeq(base.ek, idx.length, G, flavor='array', dtype=base.dtype)
    r.gathersrc = (base.arr, idx.arr)
    return r


def where_indices(I, st, mask):
    """np.nonzero / np.where(mask)[0]: strictly increasing indices of the true cells, complete (rank function),
    and of length cntT(mask, n)."""
    n = mask.length
    src = getattr(mask, 'eqsrc', None)
    if src is not None:
        # np.where(X == f): the named where-enumeration of the spec library (axioms where.*)
        sp = I.speclib
        r = VSeq('int', sp.WK(src[0], n, src[1]), sp.WH(src[0], n, src[1]), flavor='array', dtype='int64')
        return r
    pred = (lambda t: t) if mask.ek == 'bool' else (lambda t: t != 0)
    zs = getattr(mask, 'zerosrc', None)
    mask = materialize(I, st, mask)
    if zs is not None:
        mask.zerosrc = zs
    K = z3.Int(fresh_name('nz.len'))
    W = z3.Array(fresh_name('nz.idx'), z3.IntSort(), z3.IntSort())
    rank = z3.Function(fresh_name('nz.rank'), z3.IntSort(), z3.IntSort())
    k = z3.Int(fresh_name('k'))
    k2 = z3.Int(fresh_name('k2'))
    v = z3.Int(fresh_name('v'))
    I.assume(st, z3.And(K >= 0, K <= n))
    I.assume(st, z3.ForAll([k], z3.Implies(z3.And(k >= 0, k < K), z3.And(W[k] >= 0, W[k] < n, pred(mask.arr[W[k]]),
                                                                         rank(W[k]) == k)), patterns=[W[k]]))
    I.assume(st, z3.ForAll([k, k2], z3.Implies(z3.And(k >= 0, k < k2, k2 < K), W[k] < W[k2]), patterns=[z3.MultiPattern(W[k], W[k2])]))
    I.assume(st, z3.ForAll([v], z3.Implies(z3.And(v >= 0, v < n, pred(mask.arr[v])),
                                           z3.And(rank(v) >= 0, rank(v) < K, W[rank(v)] == v)),
                           patterns=[rank(v), mask.arr[v]]))
    I.assume(st, K == I.speclib.cnt_true(I, mask.arr if mask.ek == 'bool' else None, n, mask))
    return VSeq('int', K, W, flavor='array', dtype='int64')


@stub('numpy.nonzero')
def s_nonzero(I, st, args, kwargs):
    return VTuple([where_indices(I, st, args[0])])


@stub('numpy.where')
def s_where(I, st, args, kwargs):
    if len(args) == 1:
        return VTuple([where_indices(I, st, args[0])])
    c, a, b = args
    if isinstance(c, VSeq):
        i = z3.Int(fresh_name('i'))
        ea = from_term(a.arr[i], a.ek) if isinstance(a, VSeq) else a
        eb = from_term(b.arr[i], b.ek) if isinstance(b, VSeq) else b
        r = I.ite(c.arr[i], ea, eb)
        return VSeq(r.kind, c.length, z3.Lambda([i], to_term(r, r.kind)), flavor='array')
    raise EngineError('np.where scalar')


@stub('numpy.count_nonzero')
def s_count_nonzero(I, st, args, kwargs):
    m = args[0]
    return VInt(I.speclib.cnt_true(I, m.arr if m.ek == 'bool' else None, m.length, m))


@stub('numpy.zeros')
def s_zeros(I, st, args, kwargs):
    n = _int(args[0])
    dtype = dtype_of(kwargs.get('dtype'))
    I.oblige(st, 'alloc.nonneg[np.zeros]', n >= 0)
    if dtype.startswith(('int', 'uint')):
        return VSeq('int', n, z3.K(z3.IntSort(), z3.IntVal(0)), flavor='array', dtype=dtype)
    return VSeq('real', n, z3.K(z3.IntSort(), z3.RealVal(0)), flavor='array', dtype=dtype)


@stub('numpy.empty')
def s_empty(I, st, args, kwargs):
    n = _int(args[0])
    dtype = dtype_of(kwargs.get('dtype'))
    I.oblige(st, 'alloc.nonneg[np.empty]', n >= 0)
    ek = 'int' if dtype.startswith(('int', 'uint')) else 'real'
    return VSeq(ek, n, z3.Array(fresh_name('empty'), z3.IntSort(), sort_of(ek)),
                init=z3.K(z3.IntSort(), z3.BoolVal(False)), flavor='array', dtype=dtype)


def m_astype(I, st, a, dt):
    dtype = dtype_of(dt)
    j = z3.Int(fresh_name('j'))
    if a.init is not None:
        I.oblige(st, 'defined[astype]', z3.ForAll([j], z3.Implies(z3.And(j >= 0, j < a.length), a.init[j])))
    if dtype.startswith(('int', 'uint')):
        if a.ek == 'int':
            if dtype in DTYPE_RANGE and not (a.dtype in DTYPE_RANGE and DTYPE_RANGE[a.dtype][0] >= DTYPE_RANGE[dtype][0]
                                             and DTYPE_RANGE[a.dtype][1] <= DTYPE_RANGE[dtype][1]):
                lo, hi = DTYPE_RANGE[dtype]
                I.oblige(st, f'range[astype:{dtype}]', z3.ForAll([j], z3.Implies(
                    z3.And(j >= 0, j < a.length), z3.And(a.arr[j] >= lo, a.arr[j] <= hi))))
            r = VSeq('int', a.length, a.arr, flavor='array', dtype=dtype)
            if hasattr(a, 'gathersrc'):
                r.gathersrc = a.gathersrc
            return r
        if a.ek == 'real':
            i = z3.Int(fresh_name('i'))
            return VSeq('int', a.length, z3.Lambda([i], I.trunc(a.arr[i])), flavor='array', dtype=dtype)
        if a.ek == 'bool':
            i = z3.Int(fresh_name('i'))
            return VSeq('int', a.length, z3.Lambda([i], z3.If(a.arr[i], 1, 0)), flavor='array', dtype=dtype)
    if dtype.startswith('float'):
        if a.ek == 'real':
            return VSeq('real', a.length, a.arr, flavor='array', dtype=dtype)
        i = z3.Int(fresh_name('i'))
        return VSeq('real', a.length, z3.Lambda([i], z3.ToReal(a.arr[i])), flavor='array', dtype=dtype)
    raise EngineError(f'astype {dtype}')


_METHODS[(VSeq, 'astype')] = m_astype


@stub('numpy.sum')
def s_npsum(I, st, args, kwargs):
    return I.speclib.seq_sum(I, st, args[0])


@stub('numpy.log')
def s_log(I, st, args, kwargs):
    v = args[0]
    if isinstance(v, (VInt, VReal)):
        return VReal(I.speclib.LOG(_real(v)))
    raise EngineError('np.log of array')


def attribute(I, st, base, attr):
    if isinstance(base, VSeq):
        if attr == 'size':
            return VInt(base.length)
        if attr == 'shape':
            return VTuple([VInt(base.length)])
        if attr == 'values':
            return base
    if isinstance(base, VDict) and attr in ('default_factory',):
        return VNone()
    return None


def frame_column(I, st, frame, name, txt=''):
    """df[name]: the column as a sequence of cells (ints for a coded frame, strings otherwise)."""
    cols = frame.fields['columns']
    I.oblige(st, f'key[{txt}]', I.contains(cols, name, st), text=txt)
    data = frame.fields['data'].t
    cells = frame.fields.get('cells')
    kind = cells.concrete() if isinstance(cells, VStr) and cells.concrete() else 'str'
    es = z3.IntSort() if kind == 'int' else sort_of('pstr')
    COL = z3.Function('frame_col_' + kind, data.sort(), name.t.sort(), z3.ArraySort(z3.IntSort(), es))
    v = VSeq('int' if kind == 'int' else 'pstr', frame.fields['nrows'].t, COL(data, name.t), flavor='array')
    return VObj('Series', {'values': v, 'name': name})


def subscript(I, st, base, idx, txt):
    if isinstance(base, VObj) and base.cls == 'DataFrame' and isinstance(idx, VStr):
        return frame_column(I, st, base, idx, txt)
    if isinstance(base, VObj) and base.cls == 'DataFrame' and isinstance(idx, VSeq) and idx.ek in ('pstr', 'str'):
        # df[[c1, c2, ...]]: the sub-frame of those columns (same rows, same cells); every name must be a column
        k = z3.Int(fresh_name('k'))
        cols = base.fields['columns']
        I.oblige(st, f'key[{txt}]', z3.ForAll([k], z3.Implies(z3.And(k >= 0, k < idx.length), I.contains(cols, VStr(idx.arr[k]), st))), text=txt)
        return VObj('DataFrame', dict(base.fields, columns=VSeq(idx.ek, idx.length, idx.arr, flavor='list')))
    if isinstance(base, VObj) and base.cls == 'Table':
        return table_subscript(I, st, base, idx)
    if isinstance(base, VObj) and base.cls == 'InfoDict' and isinstance(idx, VStr) and idx.concrete() in base.fields:
        return base.fields[idx.concrete()]
    if isinstance(base, VObj) and base.cls in ('ColumnsFrame', 'dictlit') and isinstance(idx, VStr) and idx.concrete() in base.fields:
        return base.fields[idx.concrete()]
    return None


@stub('pandas.DataFrame')
def s_pd_dataframe(I, st, args, kwargs):
    """pd.DataFrame({'col': seq, ...}) from a literal dict of sequences: a frame of those columns (RangeIndex)."""
    if args and isinstance(args[0], VObj) and args[0].cls == 'dictlit':
        return VObj('ColumnsFrame', dict(args[0].fields))
    raise EngineError('pd.DataFrame(...) of this shape needs an `abstract` statement contract')


@stub('operator.itemgetter')
def s_itemgetter(I, st, args, kwargs):
    k = z3.simplify(_int(args[0])).as_long()
    return VFunc(f'itemgetter:{k}', lambda I_, st_, a, kw: a[0].items[k])


def m_dict_items(I, st, d):
    return VObj('DictItems', {'dict': d})


_METHODS[(VDict, 'items')] = m_dict_items
_AGG = {}


def agg_fn(name):
    """np.median / np.mean / sum of a list: one uninterpreted aggregate per name, shared by code and spec, that
    depends only on the first n cells (extensionality axiom = trusted library fact)."""
    if name not in _AGG:
        from . import speclib as sp
        F = z3.Function('agg_' + name, z3.IntSort(), z3.ArraySort(z3.IntSort(), z3.RealSort()), z3.RealSort())
        A = z3.Const('A_agg', z3.ArraySort(z3.IntSort(), z3.RealSort()))
        B = z3.Const('B_agg', z3.ArraySort(z3.IntSort(), z3.RealSort()))
        n = z3.Int('n_agg')
        i = z3.Int('i_agg')
        sp.axiom(f'agg_{name}.ext', z3.ForAll([A, B, n], z3.Implies(
            z3.ForAll([i], z3.Implies(z3.And(i >= 0, i < n), A[i] == B[i])), F(n, A) == F(n, B)),
            patterns=[z3.MultiPattern(F(n, A), F(n, B))]), 'agg_' + name)
        _AGG[name] = F
    return _AGG[name]


def _agg_stub(name):
    def f(I, st, args, kwargs):
        v = args[0]
        if not isinstance(v, VSeq):
            raise EngineError(f'{name} of non-sequence')
        if v.arr is None:
            return VReal(0)
        arr = v.arr
        if v.ek == 'int':
            i = z3.Int(fresh_name('i'))
            arr = z3.Lambda([i], z3.ToReal(v.arr[i]))
        v2 = materialize(I, st, VSeq('real', v.length, arr))
        return VReal(agg_fn(name)(v.length, v2.arr))
    return f


_FUNCS['numpy.median'] = _agg_stub('median')
_FUNCS['numpy.mean'] = _agg_stub('mean')
TRUSTED_NAMES.update({'numpy.median', 'numpy.mean'})
_plain_sum = _FUNCS['sum']


def _sum_stub(I, st, args, kwargs):
    v = args[0]
    if isinstance(v, VSeq) and v.ek == 'real':
        return _agg_stub('sum')(I, st, args, kwargs)
    return _plain_sum(I, st, args, kwargs)


_FUNCS['sum'] = _sum_stub
_max_plain = _FUNCS['max']


def _max_with_key(I, st, args, kwargs):
    key = kwargs.get('key')
    if key is not None and len(args) == 1 and isinstance(args[0], VObj) and args[0].cls == 'DictItems' \
            and isinstance(key, VFunc) and key.name == 'itemgetter:1':
        # max(d.items(), key=itemgetter(1)): an item whose value is maximal (first such in iteration order)
        d = args[0].fields['dict']
        if d.size is not None:
            I.oblige(st, 'nonempty[max(dict.items())]', d.size > 0)
        k = fresh_value(d.kk, 'argmax')
        x = z3.Const(fresh_name('x'), sort_of(d.kk))
        kt = to_term(k, d.kk)
        I.assume(st, d.dom[kt])
        I.assume(st, z3.ForAll([x], z3.Implies(d.dom[x], d.val[x] <= d.val[kt]), patterns=[d.val[x]]))
        return VTuple([k, from_term(d.val[kt], d.vk)])
    return _max_plain(I, st, args, kwargs)


_FUNCS['max'] = _max_with_key



def str_subscript(I, st, base, sl, txt):
    if isinstance(sl, ast.Slice):
        n = z3.Length(base.t)
        lo = _int(I.eval(sl.lower, st)) if sl.lower is not None else z3.IntVal(0)
        hi = _int(I.eval(sl.upper, st)) if sl.upper is not None else n
        lo = z3.If(lo > n, n, lo)
        return VStr(z3.SubString(base.t, lo, z3.If(hi > lo, hi - lo, 0)))
    i = _int(I.eval(sl, st))
    I.oblige(st, f'bounds[{txt}]', z3.And(i >= 0, i < z3.Length(base.t)))
    return VStr(z3.SubString(base.t, i, 1))


# ----------------------------------------------------------------------------- dict / Counter


def _fix_dict_kind(d, kk, vk):
    if d.kk == 'unknown':
        d.kk, d.vk = kk, vk
        d.dom = z3.K(sort_of(kk), z3.BoolVal(False))
        d.val = z3.K(sort_of(kk), to_term(fresh_value(vk, 'dflt'), vk))


def m_dict_get(I, st, d, key, default=None):
    kt = to_term(key, d.kk)
    dv = default if default is not None else VNone()
    return I.ite(d.dom[kt], from_term(d.val[kt], d.vk), dv)


_METHODS[(VDict, 'get')] = m_dict_get


def m_dict_keys(I, st, d):
    return VSet(d.kk, d.dom, d.size)


_METHODS[(VDict, 'keys')] = m_dict_keys


def m_dict_values(I, st, d):
    return VObj('DictValues', {'dict': d})


_METHODS[(VDict, 'values')] = m_dict_values


def dict_values_extreme(I, st, d, which):
    """max/min over dict.values(): needs a non-empty dict; bound on every stored value and attained by some key."""
    if d.size is not None:
        I.oblige(st, f'nonempty[{which}(dict.values())]', d.size > 0)
    m = fresh_value(d.vk, which)
    x = z3.Const(fresh_name('x'), sort_of(d.kk))
    w = z3.Const(fresh_name('w'), sort_of(d.kk))
    cmp_ = (d.val[x] <= m.t) if which == 'max' else (d.val[x] >= m.t)
    I.assume(st, z3.ForAll([x], z3.Implies(d.dom[x], cmp_), patterns=[d.val[x]]))
    I.assume(st, z3.And(d.dom[w], d.val[w] == m.t))
    return m


def m_dict_copy(I, st, d):
    return VDict(d.kk, d.vk, d.dom, d.val, d.size, d.default, d.flavor)


_METHODS[(VDict, 'copy')] = m_dict_copy


def counter_add(I, st, a, b):
    raise EngineError('Counter + Counter')


@stub('collections.Counter', 'Counter')
def s_counter(I, st, args, kwargs):
    if args:
        raise EngineError('Counter(iterable)')
    d = VDict('unknown', 'int', None, None, z3.IntVal(0), default=VInt(0), flavor='counter')
    return d


@stub('dict')
def s_dict(I, st, args, kwargs):
    if args:
        raise EngineError('dict(x)')
    return VDict('unknown', 'unknown', None, None, z3.IntVal(0))


# ----------------------------------------------------------------------------- comprehensions


def comprehension(I, st, e, out):
    if len(e.generators) != 1:
        raise EngineError('nested comprehension')
    comp = e.generators[0]
    itv = I.eval(comp.iter, st)
    n, elem = I.iter_of_value(itv, st)
    k = z3.Int(fresh_name('k'))
    names = set()
    I._target_names(comp.target, names)
    saved = {nm: st.env.get(nm) for nm in names}
    I.assign(comp.target, elem(k), st)
    # safety obligations raised under the binder are re-stated universally over the iteration variable
    rng_guard = z3.And(k >= 0, k < n)
    st.guards.append(rng_guard)
    I.bound.append(k)
    n_ob = len(I.obligations)
    n_guard = 1
    try:
        conds = []
        for c in comp.ifs:
            t = I.truth(I.eval(c, st), st)
            conds.append(t)
            st.guards.append(t)
            n_guard += 1
        body = I.eval(e.elt, st)
    finally:
        I.bound.pop()
        for _ in range(n_guard):
            st.guards.pop()
        for ob in I.obligations[n_ob:]:
            inner = [a for a in ob.assumptions[len(st.pc):]]
            # assumptions = pc-at-that-time + guards; keep pc prefix, quantify the guard part with the goal
            k_guards = [g for g in ob.assumptions if any(_mentions(g, k) for _ in (0,))]
            rest = [g for g in ob.assumptions if not _mentions(g, k)]
            ob.assumptions = rest
            ob.goal = z3.ForAll([k], z3.Implies(z3.And(*k_guards) if k_guards else z3.BoolVal(True), ob.goal))
        for nm, old in saved.items():
            if old is None:
                st.env.pop(nm, None)
            else:
                st.env[nm] = old
    ek = body.kind
    bt = to_term(body, ek)
    if out == 'set':
        x = z3.Const(fresh_name('x'), sort_of(ek))
        mem = z3.Array(fresh_name('setc'), sort_of(ek), z3.BoolSort())
        wit = z3.Function(fresh_name('setc.wit'), sort_of(ek), z3.IntSort())
        cond = z3.And(*conds) if conds else z3.BoolVal(True)
        I.assume(st, z3.ForAll([k], z3.Implies(z3.And(k >= 0, k < n, cond), mem[bt])))
        kk = wit(x)
        I.assume(st, z3.ForAll([x], z3.Implies(mem[x], z3.And(kk >= 0, kk < n, z3.substitute(cond, (k, kk)),
                                                               z3.substitute(bt, (k, kk)) == x)), patterns=[mem[x]]))
        card = z3.Int(fresh_name('card'))
        I.assume(st, z3.And(card >= 0, card <= n))
        return VSet(ek, mem, card)
    if not conds:
        R0 = z3.Array(fresh_name('map'), z3.IntSort(), sort_of(ek))
        pats = [R0[k]]
        src_t = None
        if isinstance(itv, VSeq) and itv.arr is not None and _named(itv.arr):
            pats.append(itv.arr[k])
        I.assume(st, z3.ForAll([k], R0[k] == bt, patterns=pats))
        return VSeq(ek, n, R0, flavor='list')
    # filter: exact characterisation through a strictly increasing source map and a rank function
    cond = z3.And(*conds)
    R = z3.Array(fresh_name('flt'), z3.IntSort(), sort_of(ek))
    m = z3.Int(fresh_name('flt.len'))
    src = z3.Function(fresh_name('flt.src'), z3.IntSort(), z3.IntSort())
    rk = z3.Function(fresh_name('flt.rank'), z3.IntSort(), z3.IntSort())
    j = z3.Int(fresh_name('j'))
    j2 = z3.Int(fresh_name('j2'))
    I.assume(st, z3.And(m >= 0, m <= n))
    I.assume(st, z3.ForAll([j], z3.Implies(z3.And(j >= 0, j < m), z3.And(
        src(j) >= 0, src(j) < n, z3.substitute(cond, (k, src(j))), R[j] == z3.substitute(bt, (k, src(j))),
        rk(src(j)) == j)), patterns=[R[j]]))
    I.assume(st, z3.ForAll([j, j2], z3.Implies(z3.And(j >= 0, j < j2, j2 < m), src(j) < src(j2)),
                           patterns=[z3.MultiPattern(src(j), src(j2))]))
    cpats = [rk(k)]
    if isinstance(itv, VSeq) and itv.arr is not None and _named(itv.arr):
        cpats.append(itv.arr[k])
    I.assume(st, z3.ForAll([k], z3.Implies(z3.And(k >= 0, k < n, cond), z3.And(rk(k) >= 0, rk(k) < m, src(rk(k)) == k,
                                                                             R[rk(k)] == bt)),
                           patterns=cpats))
    return VSeq(ek, m, R, flavor='list')


def dict_comprehension(I, st, e):
    raise EngineError('dict comprehension')


@stub('numpy.array_equal')
def s_array_equal(I, st, args, kwargs):
    a, b = args
    return VBool(I.equal(a, b, st))


@stub('sorted')
def s_sorted(I, st, args, kwargs):
    """sorted(L, key=f): a stable permutation of L ordered by key (ascending)."""
    L = args[0]
    if not isinstance(L, VSeq):
        raise EngineError('sorted of non-sequence')
    rev = kwargs.get('reverse')
    if rev is not None and not z3.is_false(z3.simplify(I.truth(rev, st))):
        raise EngineError('sorted(reverse=True)')
    n = L.length
    if L.arr is None:
        return VSeq(L.ek, z3.IntVal(0), None)
    f = kwargs.get('key')
    es = sort_of(L.ek)

    def key(term):
        if f is None:
            return term
        if isinstance(f, VFunc) and f.name == 'get' and isinstance(f.self_value, VDict):
            return f.self_value.val[term]
        v = f.call(I, st, [from_term(term, L.ek)], {})
        return to_term(v, v.kind)
    i = z3.Int(fresh_name('i'))
    i2 = z3.Int(fresh_name('i2'))
    if isinstance(f, VFunc) and f.name == 'get' and isinstance(f.self_value, VDict):
        # dict.get would return None for a missing key and the comparison would raise TypeError
        I.oblige(st, 'key[sorted.key=dict.get]', z3.ForAll([i], z3.Implies(z3.And(i >= 0, i < n), f.self_value.dom[L.arr[i]])))
    R = z3.Array(fresh_name('sorted'), z3.IntSort(), es)
    pi = z3.Function(fresh_name('perm'), z3.IntSort(), z3.IntSort())
    pinv = z3.Function(fresh_name('perminv'), z3.IntSort(), z3.IntSort())
    I.assume(st, z3.ForAll([i], z3.Implies(z3.And(i >= 0, i < n), z3.And(pi(i) >= 0, pi(i) < n, R[i] == L.arr[pi(i)],
                                                                      pinv(pi(i)) == i)), patterns=[R[i]]))
    I.assume(st, z3.ForAll([i], z3.Implies(z3.And(i >= 0, i < n), z3.And(pinv(i) >= 0, pinv(i) < n, pi(pinv(i)) == i,
                                                                      R[pinv(i)] == L.arr[i])), patterns=[pinv(i), L.arr[i]]))
    ksort = key(R[i]).sort()
    if ksort.kind() in (z3.Z3_INT_SORT, z3.Z3_REAL_SORT) or ksort == z3.StringSort():
        I.assume(st, z3.ForAll([i, i2], z3.Implies(z3.And(i >= 0, i < i2, i2 < n), key(R[i]) <= key(R[i2])),
                               patterns=[z3.MultiPattern(R[i], R[i2])]))
        I.assume(st, z3.ForAll([i, i2], z3.Implies(z3.And(i >= 0, i < i2, i2 < n, key(R[i]) == key(R[i2])), pi(i) < pi(i2)),
                               patterns=[z3.MultiPattern(pi(i), pi(i2))]))
    # (for keys of an uninterpreted sort only the permutation facts are assumed: a weaker, still sound, stub)
    r = VSeq(L.ek, n, R, flavor='list')
    r.perm = (pi, pinv)
    return r


def _mentions(t, v):
    seen, stack = set(), [t]
    while stack:
        x = stack.pop()
        if x.get_id() in seen:
            continue
        seen.add(x.get_id())
        if x.eq(v):
            return True
        if z3.is_quantifier(x):
            stack.append(x.body())
        else:
            stack.extend(x.children())
    return False


def _pairs_stub(I, st, seq, with_replacement):
    """itertools.combinations(_with_replacement)(s, 2): all index pairs i <= j (i < j) in lexicographic order."""
    seq = materialize(I, st, seq) if seq.arr is not None else seq
    n = seq.length
    ek = ('tuple', seq.ek, seq.ek)
    if seq.arr is None:
        return VSeq(ek, z3.IntVal(0), z3.Array(fresh_name('pairs'), z3.IntSort(), sort_of(ek)), flavor='list')
    R = z3.Array(fresh_name('pairs'), z3.IntSort(), sort_of(ek))
    L = z3.Int(fresh_name('pairs.len'))
    ia = z3.Function(fresh_name('pairs.i'), z3.IntSort(), z3.IntSort())
    ib = z3.Function(fresh_name('pairs.j'), z3.IntSort(), z3.IntSort())
    pos = z3.Function(fresh_name('pairs.pos'), z3.IntSort(), z3.IntSort(), z3.IntSort())
    m, m2, i, j = (z3.Int(fresh_name(x)) for x in ('m', 'm2', 'i', 'j'))
    mk = sort_of(ek).constructor(0)
    rel = (lambda a, b: a <= b) if with_replacement else (lambda a, b: a < b)
    I.assume(st, L >= 0)
    I.assume(st, (2 * L == n * (n + 1)) if with_replacement else (2 * L == n * (n - 1)))
    I.assume(st, z3.ForAll([m], z3.Implies(z3.And(m >= 0, m < L), z3.And(
        ia(m) >= 0, rel(ia(m), ib(m)), ib(m) < n, R[m] == mk(seq.arr[ia(m)], seq.arr[ib(m)]), pos(ia(m), ib(m)) == m)),
        patterns=[R[m]]))
    I.assume(st, z3.ForAll([i, j], z3.Implies(z3.And(i >= 0, rel(i, j), j < n), z3.And(
        pos(i, j) >= 0, pos(i, j) < L, ia(pos(i, j)) == i, ib(pos(i, j)) == j,
        R[pos(i, j)] == mk(seq.arr[i], seq.arr[j]))), patterns=[pos(i, j), z3.MultiPattern(seq.arr[i], seq.arr[j])]))
    I.assume(st, z3.ForAll([m, m2], z3.Implies(z3.And(m >= 0, m < m2, m2 < L), z3.Or(
        ia(m) < ia(m2), z3.And(ia(m) == ia(m2), ib(m) < ib(m2)))), patterns=[z3.MultiPattern(ia(m), ia(m2))]))
    return VSeq(ek, L, R, flavor='tuple')


@stub('itertools.combinations_with_replacement')
def s_cwr(I, st, args, kwargs):
    k = z3.simplify(_int(args[1]))
    if not (z3.is_int_value(k) and k.as_long() == 2):
        raise EngineError('combinations_with_replacement with r != 2')
    return _pairs_stub(I, st, _as_seq(I, st, args[0]), True)


@stub('itertools.combinations')
def s_comb(I, st, args, kwargs):
    k = z3.simplify(_int(args[1]))
    if z3.is_int_value(k) and k.as_long() == 2:
        return _pairs_stub(I, st, _as_seq(I, st, args[0]), False)
    return _kcombinations_stub(I, st, _as_seq(I, st, args[0]), _int(args[1]))


def _kcombinations_stub(I, st, seq, r):
    """itertools.combinations(pool, r) for a symbolic r: a sequence of r-element selections of the pool at strictly increasing
    positions, pairwise different as position sets (completeness - every selection occurs - is not modelled)."""
    seq = materialize(I, st, seq) if seq.arr is not None else seq
    ek = ('list', seq.ek)
    REC = sort_of(ek)
    ln, ar = REC.accessor(0, 0), REC.accessor(0, 1)
    R = z3.Array(fresh_name('combs'), z3.IntSort(), REC)
    L = z3.Int(fresh_name('combs.len'))
    pos = z3.Function(fresh_name('combs.pos'), z3.IntSort(), z3.IntSort(), z3.IntSort())
    q, c, q2 = (z3.Int(fresh_name(x)) for x in ('q', 'c', 'q2'))
    n = seq.length
    I.assume(st, z3.And(L >= 0, z3.Implies(z3.Or(r > n, r < 0), L == 0), z3.Implies(z3.And(r >= 0, r <= n), L >= 1)))
    if seq.arr is not None:
        I.assume(st, z3.ForAll([q], z3.Implies(z3.And(q >= 0, q < L), ln(R[q]) == r), patterns=[R[q]]))
        I.assume(st, z3.ForAll([q, c], z3.Implies(z3.And(q >= 0, q < L, c >= 0, c < r), z3.And(
            pos(q, c) >= 0, pos(q, c) < n, ar(R[q])[c] == seq.arr[pos(q, c)], z3.Implies(c + 1 < r, pos(q, c) < pos(q, c + 1)))),
            patterns=[ar(R[q])[c], pos(q, c)]))
        I.assume(st, z3.ForAll([q, q2], z3.Implies(z3.And(q >= 0, q < q2, q2 < L), R[q] != R[q2]), patterns=[z3.MultiPattern(R[q], R[q2])]))
    return VSeq(ek, L, R, flavor='tuple')


def _as_seq(I, st, v):
    if isinstance(v, VSeq):
        return v
    if isinstance(v, VSet):
        return s_list(I, st, [v], {})
    if isinstance(v, VTuple):
        return I.seq_from_items(v.items, st)
    raise EngineError(f'not a sequence: {v!r}')


_sorted_seq = s_sorted


@stub('sorted')
def s_sorted2(I, st, args, kwargs):
    if isinstance(args[0], VSet):
        lst = materialize(I, st, s_list(I, st, [args[0]], {}))
        return _sorted_seq(I, st, [lst] + list(args[1:]), kwargs)
    return _sorted_seq(I, st, args, kwargs)


# ----------------------------------------------------------------------------- objects (pool, timers, rng)
_OBJ_METHODS: dict = {}


def obj_method(cls, name):
    return _OBJ_METHODS.get((cls, name))


def objmethod(cls, name):
    def deco(f):
        _OBJ_METHODS[(cls, name)] = f
        TRUSTED_NAMES.add(f'{cls}.{name}')
        return f
    return deco


@stub('timer', 'time.time')
def s_timer(I, st, args, kwargs):
    return VReal(z3.Real(fresh_name('clock')))


@stub('random.shuffle')
def s_shuffle(I, st, args, kwargs):
    """random.shuffle(L): in-place permutation chosen by the module RNG stream (values unconstrained)."""
    L = args[0]
    if L.arr is None:
        return VNone()
    L2 = materialize(I, st, L)
    n = L.length
    R = z3.Array(fresh_name('shuffled'), z3.IntSort(), sort_of(L.ek))
    pi = z3.Function(fresh_name('perm'), z3.IntSort(), z3.IntSort())
    pinv = z3.Function(fresh_name('perminv'), z3.IntSort(), z3.IntSort())
    i = z3.Int(fresh_name('i'))
    I.assume(st, z3.ForAll([i], z3.Implies(z3.And(i >= 0, i < n), z3.And(pi(i) >= 0, pi(i) < n, R[i] == L2.arr[pi(i)],
                                                                      pinv(pi(i)) == i)), patterns=[R[i]]))
    I.assume(st, z3.ForAll([i], z3.Implies(z3.And(i >= 0, i < n), z3.And(pinv(i) >= 0, pinv(i) < n, pi(pinv(i)) == i,
                                                                      R[pinv(i)] == L2.arr[i])), patterns=[pinv(i), L2.arr[i]]))
    L.arr = R
    return VNone()


@objmethod('Pool', '__enter__')
def pool_enter(I, st, pool):
    return pool


@objmethod('Pool', 'amap')
def pool_amap(I, st, pool, f, xs):
    """pathos ProcessingPool.amap(f, xs).get() == [f(x) for x in xs], in the order of xs; every f(x) runs in an
    isolated worker process on a copy of the state at call time (the only concurrency fact used)."""
    xs2 = materialize(I, st, xs) if xs.arr is not None else xs
    k = z3.Int(fresh_name('k'))
    if xs2.arr is None:
        return VObj('AsyncResult', {'value': VSeq('unknown', z3.IntVal(0), None)})
    st.guards.append(z3.And(k >= 0, k < xs2.length))
    try:
        r = f.call(I, st, [from_term(xs2.arr[k], xs2.ek)], {})
    finally:
        st.guards.pop()
    ek = r.kind
    R = z3.Array(fresh_name('amap'), z3.IntSort(), sort_of(ek))
    I.assume(st, z3.ForAll([k], z3.Implies(z3.And(k >= 0, k < xs2.length), R[k] == to_term(r, ek)), patterns=[R[k], xs2.arr[k]]))
    return VObj('AsyncResult', {'value': VSeq(ek, xs2.length, R, flavor='list')})


@objmethod('AsyncResult', 'ready')
def ar_ready(I, st, ar):
    return VBool(z3.Bool(fresh_name('ready')))


@objmethod('AsyncResult', 'get')
def ar_get(I, st, ar):
    return ar.fields['value']


# ----------------------------------------------------------------------------- hashing / bit tricks (C14)
H32 = z3.Function('xxh32', z3.StringSort(), z3.IntSort())
BITLEN = z3.Function('bit_length', z3.IntSort(), z3.IntSort())


def _h32(v):
    from . import sym as _sym
    if isinstance(v, VStr):
        f = z3.Function('xxh32_' + str(v.t.sort()), v.t.sort(), z3.IntSort())
        return f(v.t)
    if isinstance(v, VOpaque) and v.t is not None:
        f = z3.Function('xxh32_' + str(v.t.sort()), v.t.sort(), z3.IntSort())
        return f(v.t)
    raise EngineError(f'xxh32 of {v!r}')


@stub('xxhash.xxh32')
def s_xxh32(I, st, args, kwargs):
    return VObj('xxh32', {'data': args[0] if args else VNone()})


@objmethod('xxh32', 'update')
def xxh_update(I, st, hasher, data):
    hasher.fields['data'] = data
    return VNone()


@objmethod('xxh32', 'intdigest')
def xxh_intdigest(I, st, hasher):
    """xxh32(...).intdigest(): an uninterpreted deterministic function of the hashed value, in [0, 2^32)."""
    t = _h32(hasher.fields['data'])
    I.assume(st, z3.And(t >= 0, t < 2**32))
    return VInt(t)


@stub('bytes')
def s_bytes(I, st, args, kwargs):
    return args[0]


_FUNCS['isinstance'] = lambda I, st, args, kwargs: VBool(
    isinstance(args[0], VStr) if isinstance(args[1], VFunc) and args[1].name == 'str' else _bad_isinstance(args))


def _bad_isinstance(args):
    raise EngineError('isinstance against a type other than str')


def m_str_encode(I, st, s, *a, **k):
    return s


_METHODS[(VStr, 'encode')] = m_str_encode


def m_int_bit_length(I, st, v):
    t = BITLEN(v.t)
    I.assume(st, z3.And(t >= 0, z3.Implies(z3.And(v.t >= 0, v.t < 2**13), t <= 13), z3.Implies(v.t == 0, t == 0)))
    return VInt(t)


_METHODS[(VInt, 'bit_length')] = m_int_bit_length


@stub('numpy.ceil')
def s_ceil(I, st, args, kwargs):
    r = _real(args[0])
    return VReal(z3.If(z3.ToReal(z3.ToInt(r)) == r, r, z3.ToReal(z3.ToInt(r) + 1)))


@stub('numpy.divide')
def s_npdivide(I, st, args, kwargs):
    a, b = args
    if isinstance(a, (VInt, VReal)) and isinstance(b, (VInt, VReal)):
        # numpy: division by zero gives inf (no exception); modelled by an uninterpreted value `np.inf`
        bz = _real(b) == 0
        return VReal(z3.If(bz, z3.Real('np.inf'), _real(a) / _real(b)))
    raise EngineError('np.divide on arrays')


# ----------------------------------------------------------------------------- opaque-string operations, preset dictionaries (C12)
def _psym():
    from . import sym as _sym
    P = _sym.PSTR
    if not hasattr(_psym, 'd'):
        PD = z3.DeclareSort('PresetDict')
        d = dict(P=P, PD=PD,
                 SPLIT_COUNT=z3.Function('split_count', P, P, z3.IntSort()),
                 SPLIT_PART=z3.Function('split_part', P, P, z3.IntSort(), P),
                 REPLACE=z3.Function('pstr_replace', P, P, P, P),
                 PFLOAT=z3.Function('pstr_to_float', P, z3.RealSort()),
                 PD_HAS=z3.Function('pd_has', PD, P, z3.BoolSort()), PD_VAL=z3.Function('pd_val', PD, P, P),
                 PD_NONEMPTY=z3.Function('pd_nonempty', PD, z3.BoolSort()), PD_LEN=z3.Function('pd_len', PD, z3.IntSort()),
                 PD_MERGE=z3.Function('pd_merge', PD, PD, PD), PD_EMPTY=z3.Const('pd_empty', PD),
                 VAULT_KNOWN=z3.Function('vault_known', P, z3.BoolSort()), VAULT_GET=z3.Function('vault_get', P, PD))
        from . import speclib as sp
        a, b = z3.Const('pd_a', PD), z3.Const('pd_b', PD)
        k = z3.Const('pd_k', P)
        sp.axiom('pd.empty', z3.And(z3.ForAll([k], z3.Not(d['PD_HAS'](d['PD_EMPTY'], k)), patterns=[d['PD_HAS'](d['PD_EMPTY'], k)]),
                                    z3.Not(d['PD_NONEMPTY'](d['PD_EMPTY'])), d['PD_LEN'](d['PD_EMPTY']) == 0), 'pd_empty')
        sp.axiom('pd.nonempty', z3.ForAll([a], z3.And(
            d['PD_LEN'](a) >= 0, (d['PD_LEN'](a) == 0) == z3.Not(d['PD_NONEMPTY'](a)),
            z3.Implies(z3.Not(d['PD_NONEMPTY'](a)), z3.ForAll([k], z3.Not(d['PD_HAS'](a, k)), patterns=[d['PD_HAS'](a, k)]))),
            patterns=[d['PD_NONEMPTY'](a)]), 'pd_nonempty')
        sp.axiom('pd.len', z3.ForAll([a], z3.And(d['PD_LEN'](a) >= 0, (d['PD_LEN'](a) == 0) == z3.Not(d['PD_NONEMPTY'](a))),
                                     patterns=[d['PD_LEN'](a)]), 'pd_len')
        m = d['PD_MERGE'](a, b)
        sp.axiom('pd.merge', z3.ForAll([a, b, k], z3.And(
            d['PD_HAS'](m, k) == z3.Or(d['PD_HAS'](a, k), d['PD_HAS'](b, k)),
            d['PD_VAL'](m, k) == z3.If(d['PD_HAS'](b, k), d['PD_VAL'](b, k), d['PD_VAL'](a, k))),
            patterns=[d['PD_HAS'](m, k), d['PD_VAL'](m, k)]), 'pd_merge')
        sp.axiom('pd.merge_nonempty', z3.ForAll([a, b], d['PD_NONEMPTY'](m) == z3.Or(d['PD_NONEMPTY'](a), d['PD_NONEMPTY'](b)),
                                                patterns=[m]), 'pd_merge')
        sp.axiom('pd.has_nonempty', z3.ForAll([a, k], z3.Implies(d['PD_HAS'](a, k), d['PD_NONEMPTY'](a)),
                                              patterns=[d['PD_HAS'](a, k)]), 'pd_has')
        _psym.d = d
    return _psym.d


def m_pstr_split(I, st, s, sep=None, *a):
    if not s.opaque:
        raise EngineError('str.split on a theory string: use strings="opaque" or a stub law')
    d = _psym()
    sp = sep.t if sep is not None else VStr(' ').t
    n = d['SPLIT_COUNT'](s.t, sp)
    I.assume(st, n >= 1)
    i = z3.Int(fresh_name('i'))
    r = VSeq('pstr', n, z3.Lambda([i], d['SPLIT_PART'](s.t, sp, i)), flavor='list')
    r.splitsrc = (s.t, sp)
    return r


def split_set(I, st, src):
    """set(s.split(sep)) as a closed term: t in it  <=>  t is one of the split parts (both directions skolemised)."""
    from . import speclib as spl
    d = _psym()
    P = d['P']
    if 'SPLITSET' not in d:
        d['SPLITSET'] = z3.Function('split_set', P, P, z3.ArraySort(P, z3.BoolSort()))
        d['SPLITPOS'] = z3.Function('split_pos', P, P, P, z3.IntSort())
        s_, sep, t = z3.Const('ss_s', P), z3.Const('ss_sep', P), z3.Const('ss_t', P)
        i = z3.Int('ss_i')
        S, PART, CNT_, POS = d['SPLITSET'], d['SPLIT_PART'], d['SPLIT_COUNT'], d['SPLITPOS']
        spl.axiom('split_set.intro', z3.ForAll([s_, sep, i], z3.Implies(z3.And(i >= 0, i < CNT_(s_, sep)), S(s_, sep)[PART(s_, sep, i)]),
                                               patterns=[PART(s_, sep, i)]), 'split_set')
        spl.axiom('split_set.elim', z3.ForAll([s_, sep, t], z3.Implies(S(s_, sep)[t], z3.And(
            POS(s_, sep, t) >= 0, POS(s_, sep, t) < CNT_(s_, sep), PART(s_, sep, POS(s_, sep, t)) == t)), patterns=[S(s_, sep)[t]]), 'split_set')
        spl.axiom('split_count.positive', z3.ForAll([s_, sep], CNT_(s_, sep) >= 1, patterns=[CNT_(s_, sep)]), 'split_set')
    return VSet('pstr', d['SPLITSET'](src[0], src[1]), None)


def set_union_all(I, st, seq):
    """set.union(*sets) over a non-empty list of sets: t in it  <=>  t is in one of them."""
    if not (isinstance(seq, VSeq) and isinstance(seq.ek, tuple) and seq.ek[0] == 'set'):
        raise EngineError('set.union(*x) on this operand')
    I.oblige(st, 'nonempty[set.union(*sets)]', seq.length >= 1)
    seq = materialize(I, st, seq)
    ek = seq.ek[1]
    U = z3.Array(fresh_name('unionall'), sort_of(ek), z3.BoolSort())
    wit = z3.Function(fresh_name('unionwit'), sort_of(ek), z3.IntSort())
    x = z3.Const(fresh_name('x'), sort_of(ek))
    r = z3.Int(fresh_name('r'))
    I.assume(st, z3.ForAll([r, x], z3.Implies(z3.And(r >= 0, r < seq.length, seq.arr[r][x]), U[x]), patterns=[seq.arr[r][x]]))
    I.assume(st, z3.ForAll([x], z3.Implies(U[x], z3.And(wit(x) >= 0, wit(x) < seq.length, seq.arr[wit(x)][x])), patterns=[U[x]]))
    return VSet(ek, U, None)


def m_pstr_replace(I, st, s, a, b):
    if not s.opaque:
        raise EngineError('str.replace on a theory string')
    return VStr(_psym()['REPLACE'](s.t, a.t, b.t))


_METHODS[(VStr, 'split')] = m_pstr_split
_METHODS[(VStr, 'replace')] = m_pstr_replace
_METHODS[(VSeq, 'tolist')] = lambda I, st, s: VSeq(s.ek, s.length, s.arr, flavor='list')
_float_plain = _FUNCS['float']


def _float_any(I, st, args, kwargs):
    v = args[0]
    if isinstance(v, VStr) and v.opaque:
        return VReal(_psym()['PFLOAT'](v.t))
    return _float_plain(I, st, args, kwargs)


_FUNCS['float'] = _float_any


@stub('numpy.array')
def s_nparray(I, st, args, kwargs):
    v = args[0]
    if isinstance(v, VSeq):
        return VSeq(v.ek, v.length, v.arr, flavor='array', dtype='float64' if v.ek == 'real' else None)
    raise EngineError('np.array of non-sequence')


@stub('transformer_vault._tr_global_namespace.get')
def s_vault_get(I, st, args, kwargs):
    """the preset table of the transformer vault: name -> dictionary (None for an unknown name); contents opaque."""
    d = _psym()
    ns = args[0]
    return VOpt(z3.Not(d['VAULT_KNOWN'](ns.t)), VOpaque('PresetDict', d['VAULT_GET'](ns.t)))


# ----------------------------------------------------------------------------- line parsing over opaque strings (C16)
def _lsym():
    """join / rstrip / csv over opaque strings, with the string-library laws the parser contracts rely on."""
    d = _psym()
    if 'JOIN' not in d:
        from . import sym as _sym
        from . import speclib as sp
        P = d['P']
        AP = z3.ArraySort(z3.IntSort(), P)
        REC = sort_of(('list', 'pstr'))
        d.update(JOIN=z3.Function('pstr_join', P, z3.IntSort(), AP, P), RSTRIP=z3.Function('pstr_rstrip', P, P, P),
                 STRIP=z3.Function('pstr_strip', P, P), CSVREC=z3.Function('csv_first_record', P, REC))
        sep, p = z3.Const('l_sep', P), z3.Const('l_p', P)
        n, i = z3.Int('l_n'), z3.Int('l_i')
        A = z3.Const('l_A', AP)
        nl, cr, crnl = _sym.pstr_lit('\n'), _sym.pstr_lit('\r'), _sym.pstr_lit('\r\n')
        C = _sym.PCONTAINS
        J = d['JOIN'](sep, n, A)
        clean = z3.ForAll([i], z3.Implies(z3.And(i >= 0, i < n), z3.Not(C(A[i], sep))))
        # str law: splitting a join of separator-free fields gives the fields back (an empty field stays a field)
        sp.axiom('str.split_join', z3.ForAll([sep, n, A], z3.Implies(z3.And(n >= 1, clean), z3.And(
            d['SPLIT_COUNT'](J, sep) == n,
            z3.ForAll([i], z3.Implies(z3.And(i >= 0, i < n), d['SPLIT_PART'](J, sep, i) == A[i])))), patterns=[J]), 'pstr_join')
        nonl = z3.ForAll([i], z3.Implies(z3.And(i >= 0, i < n), z3.And(z3.Not(C(A[i], nl)), z3.Not(C(A[i], cr)))))
        sp.axiom('str.join_no_newline', z3.ForAll([sep, n, A], z3.Implies(
            z3.And(n >= 1, nonl, z3.Not(C(sep, nl)), z3.Not(C(sep, cr))), z3.And(z3.Not(C(J, nl)), z3.Not(C(J, cr)))), patterns=[J]),
            'pstr_join')
        # str law: rstrip('\r\n') of p + '\n' (or p + '\r\n', or p itself) is p when p contains no line-break character
        for tail, nm in ((nl, 'nl'), (crnl, 'crnl')):
            sp.axiom('str.rstrip_' + nm, z3.ForAll([p], z3.Implies(
                z3.And(z3.Not(C(p, nl)), z3.Not(C(p, cr))), d['RSTRIP'](_sym.PCONCAT(p, tail), crnl) == p),
                patterns=[d['RSTRIP'](_sym.PCONCAT(p, tail), crnl)]), 'pstr_rstrip')
        sp.axiom('str.concat_empty', z3.ForAll([p], _sym.PCONCAT(p, _sym.pstr_lit('')) == p,
                                               patterns=[_sym.PCONCAT(p, _sym.pstr_lit(''))]), 'pstr_concat')
        sp.axiom('str.rstrip_none', z3.ForAll([p], z3.Implies(
            z3.And(z3.Not(C(p, nl)), z3.Not(C(p, cr))), d['RSTRIP'](p, crnl) == p), patterns=[d['RSTRIP'](p, crnl)]), 'pstr_rstrip')
    return d


def m_pstr_rstrip(I, st, s, chars=None):
    d = _lsym()
    if chars is None:
        raise EngineError('rstrip() without an argument')
    return VStr(d['RSTRIP'](s.t, chars.t))


def m_pstr_strip(I, st, s, chars=None):
    d = _lsym()
    if chars is not None:
        raise EngineError('strip(chars)')
    return VStr(d['STRIP'](s.t))


_METHODS[(VStr, 'rstrip')] = m_pstr_rstrip
_METHODS[(VStr, 'strip')] = m_pstr_strip


@stub('csv.reader')
def s_csv_reader(I, st, args, kwargs):
    """csv.reader(lines): one record (list of fields) per line, per the csv module's default dialect (trusted)."""
    d = _lsym()
    lines = args[0]
    i = z3.Int(fresh_name('i'))
    ek = ('list', 'pstr')
    return VSeq(ek, lines.length, z3.Lambda([i], d['CSVREC'](lines.arr[i])), flavor='tuple')


def m_list_pop(I, st, s, *a):
    if a:
        raise EngineError('list.pop(i)')
    I.oblige(st, 'nonempty[pop]', s.length > 0)
    v = from_term(s.arr[s.length - 1], s.ek)
    s.length = s.length - 1
    return v


_METHODS[(VSeq, 'pop')] = m_list_pop


# ----------------------------------------------------------------------------- small pandas tables (C18)
# Table = VObj('Table', keys: list[str], vals: list[real]) : a two-column frame (name, score) with a RangeIndex.
MEDIAN_OF = None


def _table_syms():
    from . import sym as _sym
    global MEDIAN_OF
    if MEDIAN_OF is None:
        P = _sym.PSTR
        MEDIAN_OF = z3.Function('median_of_group', z3.ArraySort(z3.IntSort(), P), z3.ArraySort(z3.IntSort(), z3.RealSort()),
                                z3.IntSort(), P, z3.RealSort())
    return MEDIAN_OF


def _pairs_to_table(I, st, seq):
    """pd.DataFrame(list of [name, score], columns=[...])"""
    i = z3.Int('i!pairs')     # canonical bound name: the same list always yields the same column terms
    el = from_term(seq.arr[i], seq.ek)
    keys = VSeq('pstr', seq.length, z3.Lambda([i], el.items[0].t), flavor='list')
    vals = VSeq('real', seq.length, z3.Lambda([i], to_term(el.items[1], 'real')), flavor='list')
    return VObj('Table', {'keys': materialize(I, st, keys), 'vals': materialize(I, st, vals)})


_pd_df_prev = _FUNCS['pandas.DataFrame']


def _pd_dataframe(I, st, args, kwargs):
    if args and isinstance(args[0], VSeq) and isinstance(args[0].ek, tuple) and args[0].ek[0] == 'tuple' and len(args[0].ek) == 3:
        return _pairs_to_table(I, st, args[0])
    return _pd_df_prev(I, st, args, kwargs)


_FUNCS['pandas.DataFrame'] = _pd_dataframe


@objmethod('Table', 'groupby')
def tbl_groupby(I, st, t, col, **kw):
    if kw.get('sort') is not None and not z3.is_true(z3.simplify(I.truth(kw['sort'], st))):
        return VObj('GroupBy', {'table': t, 'sorted_keys': VBool(False)})
    return VObj('GroupBy', {'table': t, 'sorted_keys': VBool(True)})


@objmethod('GroupBy', 'median')
def grp_median(I, st, g):
    """groupby(name).median(): one row per distinct name (ascending by name unless sort=False), value = median of its scores."""
    from . import sym as _sym
    t = g.fields['table']
    K, Vv = t.fields['keys'], t.fields['vals']
    M = _table_syms()
    n = z3.Int(fresh_name('grp.len'))
    G = z3.Array(fresh_name('grp.keys'), z3.IntSort(), _sym.PSTR)
    S = z3.Array(fresh_name('grp.vals'), z3.IntSort(), z3.RealSort())
    pos = z3.Function(fresh_name('grp.pos'), _sym.PSTR, z3.IntSort())
    i, j = z3.Int(fresh_name('i')), z3.Int(fresh_name('j'))
    I.assume(st, z3.And(n >= 0, n <= K.length, z3.Implies(K.length > 0, n > 0)))
    I.assume(st, z3.ForAll([i], z3.Implies(z3.And(i >= 0, i < n), z3.And(
        I.seq_member(K, VStr(G[i]), st), pos(G[i]) == i, S[i] == M(K.arr, Vv.arr, K.length, G[i]))), patterns=[G[i]]))
    I.assume(st, z3.ForAll([i], z3.Implies(z3.And(i >= 0, i < K.length), z3.And(pos(K.arr[i]) >= 0, pos(K.arr[i]) < n,
                                                                            G[pos(K.arr[i])] == K.arr[i])), patterns=[K.arr[i]]))
    if z3.is_true(z3.simplify(g.fields['sorted_keys'].t)):
        I.assume(st, z3.ForAll([i, j], z3.Implies(z3.And(i >= 0, i < j, j < n), _sym.PLE(G[i], G[j])),
                               patterns=[z3.MultiPattern(G[i], G[j])]))
    return VObj('Table', {'keys': VSeq('pstr', n, G, flavor='list'), 'vals': VSeq('real', n, S, flavor='list')})


@objmethod('Table', 'reset_index')
def tbl_reset_index(I, st, t, **kw):
    return t


@objmethod('Table', 'sort_values')
def tbl_sort_values(I, st, t, **kw):
    """sort_values(by=<score column>, ascending=False|True): a permutation of the rows ordered by score."""
    asc = kw.get('ascending')
    ascending = True if asc is None else z3.is_true(z3.simplify(I.truth(asc, st)))
    K, Vv = t.fields['keys'], t.fields['vals']
    n = K.length
    from . import sym as _sym
    G = z3.Array(fresh_name('srt.keys'), z3.IntSort(), _sym.PSTR)
    S = z3.Array(fresh_name('srt.vals'), z3.IntSort(), z3.RealSort())
    pi = z3.Function(fresh_name('srt.perm'), z3.IntSort(), z3.IntSort())
    pinv = z3.Function(fresh_name('srt.perminv'), z3.IntSort(), z3.IntSort())
    i, j = z3.Int(fresh_name('i')), z3.Int(fresh_name('j'))
    I.assume(st, z3.ForAll([i], z3.Implies(z3.And(i >= 0, i < n), z3.And(
        pi(i) >= 0, pi(i) < n, G[i] == K.arr[pi(i)], S[i] == Vv.arr[pi(i)], pinv(pi(i)) == i)), patterns=[G[i], S[i]]))
    I.assume(st, z3.ForAll([i], z3.Implies(z3.And(i >= 0, i < n), z3.And(
        pinv(i) >= 0, pinv(i) < n, pi(pinv(i)) == i, G[pinv(i)] == K.arr[i], S[pinv(i)] == Vv.arr[i])),
        patterns=[pinv(i), K.arr[i], Vv.arr[i]]))
    order = (lambda a, b: a <= b) if ascending else (lambda a, b: a >= b)
    I.assume(st, z3.ForAll([i, j], z3.Implies(z3.And(i >= 0, i < j, j < n), order(S[i], S[j])), patterns=[z3.MultiPattern(S[i], S[j])]))
    return VObj('Table', {'keys': VSeq('pstr', n, G, flavor='list'), 'vals': VSeq('real', n, S, flavor='list')})


@objmethod('Table', 'iterrows')
def tbl_iterrows(I, st, t):
    K, Vv = t.fields['keys'], t.fields['vals']
    i = z3.Int(fresh_name('i'))
    ek = ('tuple', 'int', ('tuple', 'pstr', 'real'))
    row = VTuple([VInt(i), VTuple([VStr(K.arr[i]), VReal(Vv.arr[i])])])
    return VSeq(ek, K.length, z3.Lambda([i], to_term(row, ek)), flavor='tuple')


@objmethod('Frame3', 'iterrows')
def f3_iterrows(I, st, t):
    """iterrows() of the (FeatureA, FeatureB, Score) triplet frame: (index, row) in row order."""
    A, B, S = t.fields['A'], t.fields['B'], t.fields['S']
    i = z3.Int(fresh_name('i'))
    ek = ('tuple', 'int', ('tuple', 'pstr', 'pstr', 'real'))
    row = VTuple([VInt(i), VTuple([VStr(A.arr[i]), VStr(B.arr[i]), VReal(S.arr[i])])])
    return VSeq(ek, A.length, z3.Lambda([i], to_term(row, ek)), flavor='tuple')


def table_subscript(I, st, t, idx):
    if isinstance(idx, VStr):
        if idx.concrete() == 'Feature':
            return t.fields['keys']
        v = t.fields['vals']
        return VSeq('real', v.length, v.arr, flavor='array')
    return None


def table_store(I, st, t, idx, v):
    if isinstance(idx, VStr) and idx.concrete() != 'Feature' and isinstance(v, VSeq):
        I.oblige(st, 'shape[table column store]', v.length == t.fields['keys'].length)
        t.fields['vals'] = materialize(I, st, VSeq('real', v.length, v.arr, flavor='list'))
        return True
    return False


def m_seq_min(I, st, s):
    return seq_extreme(I, st, s, 'min')


def m_seq_max(I, st, s):
    return seq_extreme(I, st, s, 'max')


_METHODS[(VSeq, 'min')] = m_seq_min
_METHODS[(VSeq, 'max')] = m_seq_max


# ----------------------------------------------------------------------------- numpy.random / generators (C19, C20)
@stub('numpy.random.choice')
def s_np_choice(I, st, args, kwargs):
    """np.random.choice(a, size, replace, p): `size` draws from a (values unconstrained except membership; pairwise
    distinct positions when replace=False, which needs size <= len(a))."""
    a = args[0]
    if isinstance(a, VInt):
        a = mk_range(z3.IntVal(0), a.t)
    a = materialize(I, st, a)
    size = kwargs.get('size', args[1] if len(args) > 1 else None)
    rep = kwargs.get('replace', args[2] if len(args) > 2 else None)
    replace = True if rep is None else not z3.is_false(z3.simplify(I.truth(rep, st)))
    I.oblige(st, 'nonempty[np.random.choice]', a.length > 0)
    if size is None:
        j = z3.Int(fresh_name('choice.idx'))
        I.assume(st, z3.And(j >= 0, j < a.length))
        return from_term(a.arr[j], a.ek)
    n = _int(size)
    I.oblige(st, 'size_nonneg[np.random.choice]', n >= 0)
    R = z3.Array(fresh_name('choice'), z3.IntSort(), sort_of(a.ek))
    src = z3.Function(fresh_name('choice.src'), z3.IntSort(), z3.IntSort())
    i, i2 = z3.Int(fresh_name('i')), z3.Int(fresh_name('i2'))
    I.assume(st, z3.ForAll([i], z3.Implies(z3.And(i >= 0, i < n), z3.And(src(i) >= 0, src(i) < a.length, R[i] == a.arr[src(i)])),
                           patterns=[R[i]]))
    if not replace:
        I.oblige(st, 'enough_values[np.random.choice(replace=False)]', n <= a.length)
        I.assume(st, z3.ForAll([i, i2], z3.Implies(z3.And(i >= 0, i < i2, i2 < n), src(i) != src(i2)),
                               patterns=[z3.MultiPattern(src(i), src(i2))]))
    return VSeq(a.ek, n, R, flavor='array', dtype=a.dtype)


@stub('numpy.random.randint')
def s_np_randint(I, st, args, kwargs):
    if len(args) == 1 and 'size' not in kwargs:
        hi = _int(args[0])
        I.oblige(st, 'range_nonempty[np.random.randint]', hi > 0)
        r = z3.Int(fresh_name('randint'))
        I.assume(st, z3.And(r >= 0, r < hi))
        return VInt(r)
    raise EngineError('np.random.randint with size / low-high')


@stub('numpy.arange')
def s_np_arange(I, st, args, kwargs):
    a = [_int(x) for x in args]
    if len(a) == 3 and not (z3.is_int_value(z3.simplify(a[2])) and z3.simplify(a[2]).as_long() == 1):
        raise EngineError('np.arange with step != 1')
    lo, hi = (z3.IntVal(0), a[0]) if len(a) == 1 else (a[0], a[1])
    r = mk_range(lo, hi)
    return VSeq('int', r.length, r.arr, flavor='array', dtype='int64')


@stub('norm.pdf')
def s_norm_pdf(I, st, args, kwargs):
    """scipy.stats.norm.pdf(x, scale): strictly positive densities, one per cell (values otherwise unconstrained)."""
    x = args[0]
    R = z3.Array(fresh_name('pdf'), z3.IntSort(), z3.RealSort())
    i = z3.Int(fresh_name('i'))
    I.assume(st, z3.ForAll([i], R[i] > 0, patterns=[R[i]]))
    r = VSeq('real', x.length, R, flavor='array', dtype='float64')
    r.positive = True
    return r


def m_arr_sum(I, st, a):
    s = I.speclib.seq_sum(I, st, a)
    if getattr(a, 'positive', False):
        I.assume(st, z3.Implies(a.length > 0, s.t > 0))
    return s


_METHODS[(VSeq, 'sum')] = m_arr_sum


@stub('numpy.append')
def s_np_append(I, st, args, kwargs):
    a, b = args
    r = seq_concat(I, st, VSeq(a.ek, a.length, a.arr, flavor='array', dtype=a.dtype), b)
    return VSeq(r.ek, r.length, r.arr, flavor='array', dtype=a.dtype)


_FUNCS['numpy.random.shuffle'] = _FUNCS['random.shuffle']
TRUSTED_NAMES.add('numpy.random.shuffle')


@stub('numpy.random.seed')
def s_np_seed(I, st, args, kwargs):
    return VNone()


# ----------------------------------------------------------------------------- 2-D helpers and python-level lists (C20)
@stub('numpy.column_stack')
def s_column_stack(I, st, args, kwargs):
    """np.column_stack((A, B)): columns of A followed by the columns of B (B may be a vector = one column)."""
    parts = args[0].items if isinstance(args[0], VTuple) else None
    if not parts or len(parts) != 2 or not isinstance(parts[0], VMat):
        raise EngineError('np.column_stack of this shape')
    A, B = parts
    r_, c_ = z3.Int(fresh_name('r')), z3.Int(fresh_name('c'))
    G = z3.Array(fresh_name('cstack'), z3.IntSort(), z3.ArraySort(z3.IntSort(), sort_of(A.ek)))
    if isinstance(B, VMat):
        I.oblige(st, 'shape[np.column_stack]', A.rows == B.rows)
        bcols, bcell = B.cols, (lambda r, c: B.arr[r][c])
    elif isinstance(B, VSeq):
        I.oblige(st, 'shape[np.column_stack]', A.rows == B.length)
        bcols, bcell = z3.IntVal(1), (lambda r, c: B.arr[r])
    else:
        raise EngineError('np.column_stack operand')
    ek = A.ek if B.ek == A.ek else 'real'
    aconv = (lambda t: t) if A.ek == ek else (lambda t: z3.ToReal(t))
    conv = (lambda t: t) if B.ek == ek else (lambda t: z3.ToReal(t))
    G = z3.Array(fresh_name('cstack'), z3.IntSort(), z3.ArraySort(z3.IntSort(), sort_of(ek)))
    I.assume(st, z3.ForAll([r_, c_], G[r_][c_] == z3.If(c_ < A.cols, aconv(A.arr[r_][c_]), conv(bcell(r_, c_ - A.cols))), patterns=[G[r_][c_]]))
    return VMat(ek, A.rows, A.cols + bcols, G, dtype=A.dtype if ek == A.ek else 'float64')


_isinst_prev = _FUNCS['isinstance']


def _isinstance(I, st, args, kwargs):
    v, t = args
    names = [x.name for x in (t.items if isinstance(t, VTuple) else [t]) if isinstance(x, VFunc)]
    if any(n in ('list', 'numpy.ndarray') for n in names) and all(n in ('list', 'numpy.ndarray') for n in names):
        return VBool(isinstance(v, (VSeq, VMat)))
    return _isinst_prev(I, st, args, kwargs)


_FUNCS['isinstance'] = _isinstance
_FUNCS['numpy.ndarray'] = lambda I, st, a, k: (_ for _ in ()).throw(EngineError('np.ndarray()'))


@objmethod('PyList', 'append')
def pylist_append(I, st, lst, x):
    lst.fields['items'].append(x)
    return VNone()


_sum_prev = _FUNCS['numpy.sum']


def _np_sum(I, st, args, kwargs):
    a = args[0]
    ax = kwargs.get('axis')
    if isinstance(a, VMat) and ax is not None and z3.simplify(_int(ax)).as_long() == 1:
        # row sums of a matrix
        from . import speclib as sp
        r_ = z3.Int(fresh_name('r'))
        if a.ek == 'int':
            return VSeq('int', a.rows, z3.Lambda([r_], sp.SUMI(a.arr[r_], a.cols)), flavor='array', dtype='int64')
        return VSeq('real', a.rows, z3.Lambda([r_], sp.SUMR(a.arr[r_], a.cols)), flavor='array', dtype='float64')
    return _sum_prev(I, st, args, kwargs)


_FUNCS['numpy.sum'] = _np_sum
SIN = z3.Function('np_sin', z3.RealSort(), z3.RealSort())


@stub('numpy.sin')
def s_np_sin(I, st, args, kwargs):
    a = args[0]
    if isinstance(a, VSeq):
        i = z3.Int(fresh_name('i'))
        conv = (lambda t: z3.ToReal(t)) if a.ek == 'int' else (lambda t: t)
        return VSeq('real', a.length, z3.Lambda([i], SIN(conv(a.arr[i]))), flavor='array', dtype='float64')
    return VReal(SIN(_real(a)))


# ----------------------------------------------------------------------------- files, progress bars, misc objects (C08)
@objmethod('File', 'readline')
def file_readline(I, st, f):
    return VStr('')


@objmethod('File', 'close')
def file_close(I, st, f):
    return VNone()


@stub('deque', 'collections.deque')
def s_deque(I, st, args, kwargs):
    return VObj('deque', {})


@stub('defaultdict', 'collections.defaultdict')
def s_defaultdict(I, st, args, kwargs):
    return VObj('defaultdict', {})


def m_opaque_copy(I, st, v):
    return v


_METHODS[(VOpaque, 'copy')] = m_opaque_copy


# ----------------------------------------------------------------------------- string columns (pandas Series of str) and concatenation laws (C10, C11)
def _slaw():
    """Concatenation laws of the opaque string sort.  Every law below has a twin in the SMT-LIB theory of strings
    (`string_law_twins`) that is proved by z3 / cvc5 on every run of the checks that use it, so none of them is an assumption."""
    from . import sym as _sym
    from . import speclib as sp
    if hasattr(_slaw, 'd'):
        return _slaw.d
    P = _sym.PSTR
    C, LEN, HAS, OFI = _sym.PCONCAT, _sym.PLEN, _sym.PCONTAINS, _sym.PSTR_OF_INT
    colon, empty = _sym.pstr_lit(':'), _sym.pstr_lit('')
    LP = z3.Function('lp', P, P)                      # the length-prefixed rendering  f'{len(v)}:{v}'
    XXH = z3.Function('xxh64_hexdigest', P, P)
    a, b, c, x, y = (z3.Const('sl_' + n, P) for n in 'abcxy')
    n, m = z3.Int('sl_n'), z3.Int('sl_m')
    ax = []

    def law(name, f, decl):
        sp.axiom(name, f, decl, opaque=True)
        ax.append(name)
    law('pstr.lp_def', z3.ForAll([a], LP(a) == C(C(OFI(LEN(a)), colon), a), patterns=[LP(a)]), 'lp')
    law('pstr.assoc', z3.ForAll([a, b, c], C(C(a, b), c) == C(a, C(b, c)), patterns=[C(C(a, b), c)]), 'lp')
    law('pstr.concat_empty_r', z3.ForAll([a], C(a, empty) == a, patterns=[C(a, empty)]), 'lp')
    law('pstr.len_nonneg', z3.ForAll([a], LEN(a) >= 0, patterns=[LEN(a)]), 'lp')
    law('pstr.of_int_no_colon', z3.ForAll([n], z3.Implies(n >= 0, z3.Not(HAS(OFI(n), colon))), patterns=[OFI(n)]), 'pstr_of_int')
    law('pstr.of_int_injective', z3.ForAll([n, m], z3.Implies(z3.And(n >= 0, m >= 0, OFI(n) == OFI(m)), n == m),
                                           patterns=[z3.MultiPattern(OFI(n), OFI(m))]), 'pstr_of_int')
    law('pstr.split_first_colon', z3.ForAll([a, b, x, y], z3.Implies(
        z3.And(z3.Not(HAS(a, colon)), z3.Not(HAS(b, colon)), C(a, C(colon, x)) == C(b, C(colon, y))), z3.And(a == b, x == y)),
        patterns=[z3.MultiPattern(C(a, C(colon, x)), C(b, C(colon, y)))]), 'pstr_of_int')
    law('pstr.cancel_equal_length', z3.ForAll([a, b, x, y], z3.Implies(
        z3.And(LEN(a) == LEN(b), C(a, x) == C(b, y)), z3.And(a == b, x == y)),
        patterns=[z3.MultiPattern(C(a, x), C(b, y))]), 'pstr_of_int')
    # xxh64: "up to 64-bit hash collisions" is part of the property statement -> collision freedom is the stated idealisation
    sp.axiom('xxh64.collision_free(stated idealisation)', z3.ForAll([a, b], z3.Implies(XXH(a) == XXH(b), a == b),
                                                                    patterns=[z3.MultiPattern(XXH(a), XXH(b))]), 'xxh64_hexdigest')
    # the prefix-code lemma used by clients: proved from the laws above (speclib lemma `lp_prefix_code`)
    sp.lemma('lp_prefix_code',
             z3.ForAll([a, b, x, y], z3.Implies(C(LP(a), x) == C(LP(b), y), z3.And(a == b, x == y)),
                       patterns=[z3.MultiPattern(C(LP(a), x), C(LP(b), y))]),
             [('direct', z3.ForAll([a, b, x, y], z3.Implies(C(LP(a), x) == C(LP(b), y), z3.And(a == b, x == y))))],
             unfold=['lp', 'pstr_of_int'])
    _slaw.d = dict(LP=LP, XXH=XXH, laws=ax)
    return _slaw.d


def string_law_twins():
    """[(name, formula over the SMT-LIB theory of strings)]: the same laws stated about real (unbounded unicode) strings."""
    S = z3.StringSort()
    a, b, c, x, y = (z3.Const('tw_' + n, S) for n in 'abcxy')
    n, m = z3.Int('tw_n'), z3.Int('tw_m')
    colon = z3.StringVal(':')
    cat = z3.Concat
    return [
        ('pstr.assoc', cat(cat(a, b), c) == cat(a, cat(b, c))),
        ('pstr.concat_empty_r', cat(a, z3.StringVal('')) == a),
        ('pstr.len_nonneg', z3.Length(a) >= 0),
        ('pstr.of_int_no_colon', z3.Implies(n >= 0, z3.Not(z3.Contains(z3.IntToStr(n), colon)))),
        ('pstr.of_int_injective', z3.Implies(z3.And(n >= 0, m >= 0, z3.IntToStr(n) == z3.IntToStr(m)), n == m)),
        ('pstr.split_first_colon', z3.Implies(z3.And(z3.Not(z3.Contains(a, colon)), z3.Not(z3.Contains(b, colon)),
                                                     cat(a, cat(colon, x)) == cat(b, cat(colon, y))), z3.And(a == b, x == y))),
        ('pstr.cancel_equal_length', z3.Implies(z3.And(z3.Length(a) == z3.Length(b), cat(a, x) == cat(b, y)), z3.And(a == b, x == y))),
    ]


def _series(ek, n, arr, owned=True):
    v = VSeq(ek, n, arr, flavor='series')
    v.owned = z3.BoolVal(owned)      # ownership (no other holder of the object): symbolic, so that loops must state it
    return v


def _as_series(I, st, v):
    if isinstance(v, VObj) and v.cls == 'Series':
        s = v.fields['values']
        r = _series(s.ek, s.length, s.arr, owned=False)
        return r
    if isinstance(v, VSeq) and v.flavor == 'series':
        return v
    raise EngineError(f'not a Series: {v!r}')


def _elementwise(I, st, s, f, what):
    """[f(x) for x in s] as a new column; f is evaluated once on a symbolic cell."""
    k = z3.Int(fresh_name('row'))
    st.guards.append(z3.And(k >= 0, k < s.length))
    I.bound.append(k)
    try:
        r = f.call(I, st, [from_term(s.arr[k], s.ek)], {})
    finally:
        st.guards.pop()
        I.bound.pop()
    ek = r.kind
    R = z3.Array(fresh_name(what), z3.IntSort(), sort_of(ek))
    I.assume(st, z3.ForAll([k], z3.Implies(z3.And(k >= 0, k < s.length), R[k] == to_term(r, ek)), patterns=[R[k]]))
    return _series(ek, s.length, R)


def series_astype(I, st, s, dt):
    """Series.astype(str) on a column whose cells are already str: a copy with the same cells (the pipeline's frames hold
    strings only; astype returns a new object)."""
    s = _as_series(I, st, s)
    if dtype_of(dt) != 'str' or s.ek not in ('pstr', 'str'):
        raise EngineError('Series.astype other than str on a str column')
    return _series(s.ek, s.length, s.arr)


def series_map(I, st, s, f, **kw):
    """Series.map(f) / Series.apply(f) with a scalar function: element-wise, same index, new object."""
    s = _as_series(I, st, s)
    if not isinstance(f, VFunc):
        raise EngineError('Series.map with a non-function')
    return _elementwise(I, st, s, f, 'mapped')


for _cls in ('Series',):
    _OBJ_METHODS[(_cls, 'astype')] = series_astype
    _OBJ_METHODS[(_cls, 'map')] = series_map
    _OBJ_METHODS[(_cls, 'apply')] = series_map
    TRUSTED_NAMES.update({'Series.astype', 'Series.map', 'Series.apply', 'Series.__add__'})


def m_series_dispatch(name, fn):
    def f(I, st, s, *a, **k):
        if s.flavor != 'series':
            raise EngineError(f'{name} on a non-Series sequence')
        return fn(I, st, s, *a, **k)
    return f


_prev_astype = _METHODS[(VSeq, 'astype')]


def _seq_astype(I, st, a, dt):
    if a.flavor == 'series':
        return series_astype(I, st, a, dt)
    return _prev_astype(I, st, a, dt)


_METHODS[(VSeq, 'astype')] = _seq_astype
_METHODS[(VSeq, 'map')] = m_series_dispatch('map', series_map)
_METHODS[(VSeq, 'apply')] = m_series_dispatch('apply', series_map)


def series_binop(I, st, op, a, b, inplace, txt):
    """Series + Series of strings over the same RangeIndex: element-wise concatenation.  `+=` mutates the left object in place,
    which is only allowed on a Series this function created itself (otherwise another holder of the object sees the change)."""
    from . import sym as _sym
    if not isinstance(op, ast.Add):
        raise EngineError(f'Series operator {type(op).__name__}')
    a, b = _as_series(I, st, a), _as_series(I, st, b)
    if a.ek != b.ek or a.ek not in ('pstr', 'str'):
        raise EngineError('Series + Series on non-string columns')
    I.oblige(st, f'rows[{txt}]', a.length == b.length, text=txt)
    if inplace:
        I.oblige(st, f'frame[{txt}: in-place update of a Series this function does not own]', getattr(a, 'owned', z3.BoolVal(False)), text=txt)
    k = z3.Int(fresh_name('row'))
    R = z3.Array(fresh_name('cat'), z3.IntSort(), sort_of(a.ek))
    cat = _sym.PCONCAT if a.ek == 'pstr' else z3.Concat
    I.assume(st, z3.ForAll([k], z3.Implies(z3.And(k >= 0, k < a.length), R[k] == cat(a.arr[k], b.arr[k])), patterns=[R[k]]))
    if inplace:
        a.arr = R
        return a
    return _series(a.ek, a.length, R)


def m_pstr_join(I, st, sep, seq):
    """sep.join(seq) over opaque strings: the uninterpreted join of the first len(seq) cells."""
    d = _lsym()
    if not (isinstance(seq, VSeq) and seq.ek == 'pstr' and sep.opaque):
        raise EngineError('str.join on this operand')
    return VStr(d['JOIN'](sep.t, seq.length, seq.arr))


_METHODS[(VStr, 'join')] = m_pstr_join


@stub('xxhash.xxh64')
def s_xxh64(I, st, args, kwargs):
    return VObj('xxh64', {'data': args[0] if args else VNone()})


@objmethod('xxh64', 'hexdigest')
def xxh64_hexdigest(I, st, hasher):
    """xxh64(data).hexdigest(): a deterministic function of the hashed string (collision freedom is the property's stated idealisation)."""
    v = hasher.fields['data']
    if not (isinstance(v, VStr) and v.opaque):
        raise EngineError('xxh64 of a non-string')
    return VStr(_slaw()['XXH'](v.t))


# ----------------------------------------------------------------------------- frames built from a dict of columns, column-wise concat (C10, C11)
def _frame_col_fn(I, frame):
    data = frame.fields['data'].t
    from . import sym as _sym
    return z3.Function('frame_col_str', data.sort(), _sym.PSTR, z3.ArraySort(z3.IntSort(), _sym.PSTR)), data


def _pd_dataframe_from_dict(I, st, d):
    """pd.DataFrame(dict name -> list of str): one column per key (pandas raises ValueError unless all lists have one length),
    RangeIndex over that length; an empty dict gives the empty frame."""
    from . import sym as _sym
    if d.kk != 'pstr' or d.vk != ('list', 'pstr'):
        raise EngineError(f'pd.DataFrame(dict) with kinds {d.kk} -> {d.vk}')
    P = _sym.PSTR
    REC = sort_of(('list', 'pstr'))
    ln, ar = REC.accessor(0, 0), REC.accessor(0, 1)
    a, b = z3.Const(fresh_name('ka'), P), z3.Const(fresh_name('kb'), P)
    I.oblige(st, 'equal_lengths[pd.DataFrame(dict)]', z3.ForAll([a, b], z3.Implies(z3.And(d.dom[a], d.dom[b]), ln(d.val[a]) == ln(d.val[b]))))
    K = VSeq('pstr', z3.Int(fresh_name('dfcols.len')), z3.Array(fresh_name('dfcols.arr'), z3.IntSort(), P), flavor='list')
    I.wellformed(st, K)
    pos = z3.Function(fresh_name('dfcolpos'), P, z3.IntSort())
    i, j = z3.Int(fresh_name('i')), z3.Int(fresh_name('j'))
    n = z3.Int(fresh_name('dfrows'))
    FD = sort_of(('opaque', 'FrameData'))
    D = z3.Const(fresh_name('dfdata'), FD)
    COL = z3.Function('frame_col_str', FD, P, z3.ArraySort(z3.IntSort(), P))
    I.assume(st, z3.And(K.length >= 0, n >= 0, z3.Implies(K.length == 0, n == 0)))
    if d.size is not None:
        I.assume(st, K.length == d.size)
    # the columns are exactly the keys, each once
    I.assume(st, z3.ForAll([i], z3.Implies(z3.And(i >= 0, i < K.length), z3.And(d.dom[K.arr[i]], pos(K.arr[i]) == i)), patterns=[K.arr[i]]))
    I.assume(st, z3.ForAll([a], z3.Implies(d.dom[a], z3.And(pos(a) >= 0, pos(a) < K.length, K.arr[pos(a)] == a, ln(d.val[a]) == n,
                                                            COL(D, a) == ar(d.val[a]))), patterns=[d.dom[a]] if z3.is_const(d.dom) else [pos(a)]))
    I.assume(st, z3.ForAll([a], z3.Implies(d.dom[a], z3.And(ln(d.val[a]) == n, COL(D, a) == ar(d.val[a]))), patterns=[COL(D, a)]))
    return VObj('DataFrame', {'columns': K, 'nrows': VInt(n), 'data': VOpaque('FrameData', D), 'cells': VStr('str')})


_pd_df_prev2 = _FUNCS['pandas.DataFrame']


def _pd_dataframe2(I, st, args, kwargs):
    if len(args) == 1 and isinstance(args[0], VDict) and not kwargs:
        return _pd_dataframe_from_dict(I, st, args[0])
    return _pd_df_prev2(I, st, args, kwargs)


_FUNCS['pandas.DataFrame'] = _pd_dataframe2
TRUSTED_NAMES.update({'pandas.DataFrame', 'pandas.concat'})


@stub('pandas.concat')
def s_pd_concat(I, st, args, kwargs):
    """pd.concat([A, B], axis=1) of two frames with RangeIndex: the columns of A followed by the columns of B.  pandas aligns on the
    index (outer join), so unless B has no columns the row counts must agree - otherwise cells would be missing (obligation)."""
    from . import sym as _sym
    ax = kwargs.get('axis')
    if ax is None or not z3.is_true(z3.simplify(_int(ax) == 1)):
        raise EngineError('pd.concat without axis=1')
    frames = args[0]
    items = frames.items if isinstance(frames, VTuple) else None
    if not items or len(items) != 2 or not all(isinstance(f, VObj) and f.cls == 'DataFrame' for f in items):
        raise EngineError('pd.concat of something other than two frames')
    A, B = items
    P = _sym.PSTR
    FD = sort_of(('opaque', 'FrameData'))
    COL = z3.Function('frame_col_str', FD, P, z3.ArraySort(z3.IntSort(), P))
    I.oblige(st, 'row_aligned[pd.concat(axis=1)]', z3.Or(B.fields['columns'].length == 0, B.fields['nrows'].t == A.fields['nrows'].t))
    cols = seq_concat(I, st, A.fields['columns'], B.fields['columns'])
    D = z3.Const(fresh_name('catdata'), FD)
    a = z3.Const(fresh_name('ka'), P)
    inA, inB = I.contains(A.fields['columns'], VStr(a), st), I.contains(B.fields['columns'], VStr(a), st)
    DA, DB = A.fields['data'].t, B.fields['data'].t
    I.assume(st, z3.ForAll([a], z3.And(z3.Implies(z3.And(inA, z3.Not(inB)), COL(D, a) == COL(DA, a)),
                                       z3.Implies(z3.And(inB, z3.Not(inA)), COL(D, a) == COL(DB, a))), patterns=[COL(D, a)]))
    return VObj('DataFrame', {'columns': cols, 'nrows': A.fields['nrows'], 'data': VOpaque('FrameData', D), 'cells': VStr('str')})


@objmethod('Series', 'tolist')
def series_tolist(I, st, s):
    v = s.fields['values']
    return VSeq(v.ek, v.length, v.arr, flavor='list')


@objmethod('Series', 'unique')
def series_unique(I, st, s):
    """Series.unique(): the distinct cells, each once (order of first appearance; only distinctness and coverage are used)."""
    v = materialize(I, st, s.fields['values'])
    es = sort_of(v.ek)
    U = VSeq(v.ek, z3.Int(fresh_name('uniq.len')), z3.Array(fresh_name('uniq.arr'), z3.IntSort(), es), flavor='list')
    src = z3.Function(fresh_name('uniq.src'), z3.IntSort(), z3.IntSort())
    pos = z3.Function(fresh_name('uniq.pos'), es, z3.IntSort())
    i, r = z3.Int(fresh_name('i')), z3.Int(fresh_name('r'))
    I.assume(st, z3.And(U.length >= 0, U.length <= v.length, z3.Implies(v.length > 0, U.length > 0)))
    I.assume(st, z3.ForAll([i], z3.Implies(z3.And(i >= 0, i < U.length), z3.And(src(i) >= 0, src(i) < v.length, v.arr[src(i)] == U.arr[i],
                                                                          pos(U.arr[i]) == i)), patterns=[U.arr[i]]))
    I.assume(st, z3.ForAll([r], z3.Implies(z3.And(r >= 0, r < v.length), z3.And(pos(v.arr[r]) >= 0, pos(v.arr[r]) < U.length,
                                                                          U.arr[pos(v.arr[r])] == v.arr[r])), patterns=[v.arr[r]]))
    return U


_prev_join = _METHODS[(VStr, 'join')]


def m_pstr_join2(I, st, sep, seq):
    """sep.join((a, b, ...)) of a fixed-size tuple of strings is a + sep + b + ... exactly."""
    from . import sym as _sym
    if isinstance(seq, VTuple) and seq.items and all(isinstance(x, VStr) and x.opaque for x in seq.items) and sep.opaque:
        r = seq.items[0].t
        for x in seq.items[1:]:
            r = _sym.PCONCAT(_sym.PCONCAT(r, sep.t), x.t)
        return VStr(r)
    return _prev_join(I, st, sep, seq)


_METHODS[(VStr, 'join')] = m_pstr_join2
