"""Symbolic values of the pyvc engine and their z3 representation.

Kinds (static shape descriptors, also used to pick z3 sorts):
  'int' | 'real' | 'bool' | 'str' | 'none'
  ('tuple', k1, ..., kn)      fixed-arity tuple
  ('list', k) / ('array', k, dtype)   sequence = (length, Array Int k [, init bits])
  ('set', k)                  Array k Bool
  ('dict', kk, vk)            (domain Array kk Bool, values Array kk vk)
  ('opt', k)                  None | k
  ('opaque', name)            uninterpreted sort
"""
from __future__ import annotations

import itertools

import z3

_fresh = itertools.count()
_scope = ['', {}]


def set_scope(key: str):
    """Names created while one function is verified carry a tag derived from the function and a counter that restarts with
    it: the VCs of a function are textually identical in every property that verifies it (solver behaviour, hints and timings
    do not depend on what was verified before), and names of different functions never collide."""
    import zlib
    import os
    tag = format(zlib.crc32((key + os.environ.get('PYVC_NAME_SALT', '')).encode()) % 46656, 'x')
    _scope[0] = tag + '.'
    _scope[1][tag] = itertools.count()


def fresh_name(base: str) -> str:
    if _scope[0]:
        return f'{base}!{_scope[0]}{next(_scope[1][_scope[0][:-1]])}'
    return f'{base}!{next(_fresh)}'


# ----------------------------------------------------------------------------- kinds -> sorts

_sort_cache: dict = {}
# Strings are modelled either by the SMT string theory (kind 'str') or, when only equality and a few opaque
# operations matter, by an uninterpreted sort (kind 'pstr'): far cheaper under quantifiers, and an abstraction
# (every fact proved holds for real strings, since the opaque operations are consistent with the real ones).
STRING_MODE = ['theory']
KIND_SUBST: dict = {}     # generic kind variables of the contract being applied (e.g. Comb := tuple[str,str])
PSTR = z3.DeclareSort('PyStr')
PCONCAT = z3.Function('pstr_concat', PSTR, PSTR, PSTR)
PCONTAINS = z3.Function('pstr_contains', PSTR, PSTR, z3.BoolSort())
PLEN = z3.Function('pstr_len', PSTR, z3.IntSort())
PLE = z3.Function('pstr_le', PSTR, PSTR, z3.BoolSort())
PSTR_OF_INT = z3.Function('pstr_of_int', z3.IntSort(), PSTR)     # python's str(int)
LITERALS: dict = {}


def pstr_lit(s: str):
    if s not in LITERALS:
        LITERALS[s] = z3.Const('lit:' + repr(s), PSTR)
    return LITERALS[s]


def kind_name(k) -> str:
    if isinstance(k, str):
        return k
    return k[0] + '_' + '_'.join(kind_name(x) for x in k[1:] if x is not None)


def sort_of(k):
    """z3 sort used when a value of kind k is stored inside a container."""
    if k in _sort_cache:
        return _sort_cache[k]
    if k == 'int':
        s = z3.IntSort()
    elif k == 'real':
        s = z3.RealSort()
    elif k == 'bool':
        s = z3.BoolSort()
    elif k == 'str':
        s = z3.StringSort()
    elif k == 'pstr':
        s = PSTR
    elif isinstance(k, tuple) and k[0] == 'tuple':
        dt = z3.Datatype(kind_name(k))
        dt.declare('mk_' + kind_name(k), *[(f'f{i}_{kind_name(k)}', sort_of(x)) for i, x in enumerate(k[1:])])
        s = dt.create()
    elif isinstance(k, tuple) and k[0] == 'opt':
        dt = z3.Datatype(kind_name(k))
        dt.declare('none_' + kind_name(k))
        dt.declare('some_' + kind_name(k), ('val_' + kind_name(k), sort_of(k[1])))
        s = dt.create()
    elif isinstance(k, tuple) and k[0] == 'opaque':
        s = z3.DeclareSort(k[1])
    elif isinstance(k, tuple) and k[0] in ('list', 'array'):
        # nested sequences: (length, array) packed in a datatype
        dt = z3.Datatype(kind_name(k))
        dt.declare('mk_' + kind_name(k), ('len_' + kind_name(k), z3.IntSort()),
                   ('arr_' + kind_name(k), z3.ArraySort(z3.IntSort(), sort_of(k[1]))))
        s = dt.create()
    elif isinstance(k, tuple) and k[0] == 'set':
        s = z3.ArraySort(sort_of(k[1]), z3.BoolSort())
    else:
        raise EngineError(f'no sort for kind {k!r}')
    _sort_cache[k] = s
    return s


class EngineError(Exception):
    """The engine cannot interpret something (out of subset / checker error)."""


# ----------------------------------------------------------------------------- values


class V:
    kind = None


class VInt(V):
    kind = 'int'

    def __init__(self, t, dtype=None):
        if isinstance(t, int):
            t = z3.IntVal(t)
        self.t = t
        self.dtype = dtype

    def __repr__(self):
        return f'VInt({self.t})'


class VReal(V):
    kind = 'real'

    def __init__(self, t, inf=None):
        if isinstance(t, (int, float)):
            t = z3.RealVal(repr(t) if isinstance(t, float) else t)
        self.t = t
        self.inf = inf      # None = finite; else z3 Int in {-1, 0, 1}: extended real (-inf / finite / +inf)

    def __repr__(self):
        return f'VReal({self.t})'


class VBool(V):
    kind = 'bool'

    def __init__(self, t):
        if isinstance(t, bool):
            t = z3.BoolVal(t)
        self.t = t

    def __repr__(self):
        return f'VBool({self.t})'


class VStr(V):
    def __init__(self, t):
        if isinstance(t, str):
            t = pstr_lit(t) if STRING_MODE[0] == 'opaque' else z3.StringVal(t)
        self.t = t

    @property
    def kind(self):
        return 'pstr' if self.t.sort() == PSTR else 'str'

    @property
    def opaque(self):
        return self.t.sort() == PSTR

    def concrete(self):
        if self.opaque:
            for k, v in LITERALS.items():
                if v.eq(self.t):
                    return k
            return None
        t = z3.simplify(self.t)
        if z3.is_string_value(t):
            return t.as_string()
        return None

    def __repr__(self):
        return f'VStr({self.t})'


class VNone(V):
    kind = 'none'

    def __repr__(self):
        return 'VNone'


class VTuple(V):
    def __init__(self, items):
        self.items = list(items)

    @property
    def kind(self):
        return ('tuple',) + tuple(i.kind for i in self.items)

    def __repr__(self):
        return f'VTuple({self.items})'


class VOpt(V):
    """Optional value: is_none (z3 Bool) and payload value (meaningful when not none)."""

    def __init__(self, is_none, val):
        self.is_none = is_none
        self.val = val

    @property
    def kind(self):
        return ('opt', self.val.kind)


class VSeq(V):
    """list / 1-D ndarray / range.  Mutable: fields are rebound on update."""

    def __init__(self, ek, length, arr, init=None, flavor='list', dtype=None):
        self.ek = ek
        self.length = length
        self.arr = arr
        self.init = init          # None = every cell defined; else Array Int Bool
        self.flavor = flavor      # 'list' | 'array' | 'tuple' (immutable homogeneous)
        self.dtype = dtype

    @property
    def kind(self):
        return ('array', self.ek, self.dtype) if self.flavor == 'array' else ('list', self.ek)

    def __repr__(self):
        return f'VSeq<{self.ek},{self.flavor}>(len={self.length})'


class VMat(V):
    """2-D ndarray: arr is Array Int (Array Int elem); mutable."""

    def __init__(self, ek, rows, cols, arr, dtype=None):
        self.ek = ek
        self.rows = rows
        self.cols = cols
        self.arr = arr
        self.dtype = dtype

    @property
    def kind(self):
        return ('array2', self.ek, self.dtype)


class VSet(V):
    def __init__(self, ek, mem, card=None):
        self.ek = ek
        self.mem = mem
        self.card = card

    @property
    def kind(self):
        return ('set', self.ek)


class VDict(V):
    def __init__(self, kk, vk, dom, val, size=None, default=None, flavor='dict'):
        self.kk = kk
        self.vk = vk
        self.dom = dom
        self.val = val
        self.size = size
        self.default = default    # Counter -> VInt(0)
        self.flavor = flavor

    @property
    def kind(self):
        return ('dict', self.kk, self.vk)


class VObj(V):
    def __init__(self, cls, fields=None):
        self.cls = cls
        self.fields = fields if fields is not None else {}

    kind = ('opaque', 'Obj')

    def __repr__(self):
        return f'VObj<{self.cls}>({list(self.fields)})'


class VFunc(V):
    """A callable inside the interpreter: stub, lambda, nested def or contract-bound function."""

    def __init__(self, name, call, self_value=None):
        self.name = name
        self.call = call
        self.self_value = self_value

    kind = ('opaque', 'Func')


class VModule(V):
    def __init__(self, name):
        self.name = name

    kind = ('opaque', 'Module')


class VOpaque(V):
    def __init__(self, tag, t=None):
        self.tag = tag
        self.t = t

    @property
    def kind(self):
        return ('opaque', self.tag)


# ----------------------------------------------------------------------------- conversions


def to_term(v: V, k=None):
    """z3 term of value v as an element of a container of element kind k."""
    k = k if k is not None else v.kind
    if k == 'int':
        if isinstance(v, VInt):
            return v.t
        if isinstance(v, VBool):
            return z3.If(v.t, z3.IntVal(1), z3.IntVal(0))
    if k == 'real':
        if isinstance(v, VReal):
            return v.t
        if isinstance(v, VInt):
            return z3.ToReal(v.t)
        if isinstance(v, VBool):
            return z3.If(v.t, z3.RealVal(1), z3.RealVal(0))
    if k == 'bool' and isinstance(v, VBool):
        return v.t
    if k in ('str', 'pstr') and isinstance(v, VStr):
        return v.t
    if isinstance(k, tuple) and k[0] == 'tuple' and isinstance(v, VTuple):
        s = sort_of(k)
        if len(v.items) != len(k) - 1:
            raise EngineError(f'tuple arity mismatch {v} vs {k}')
        return s.constructor(0)(*[to_term(x, kk) for x, kk in zip(v.items, k[1:])])
    if isinstance(k, tuple) and k[0] == 'opt':
        s = sort_of(k)
        if isinstance(v, VNone):
            return s.constructor(0)()
        if isinstance(v, VOpt):
            return z3.If(v.is_none, s.constructor(0)(), s.constructor(1)(to_term(v.val, k[1])))
        return s.constructor(1)(to_term(v, k[1]))
    if isinstance(k, tuple) and k[0] in ('list', 'array') and isinstance(v, VSeq):
        s = sort_of(k)
        return s.constructor(0)(v.length, v.arr)
    if isinstance(k, tuple) and k[0] == 'set' and isinstance(v, VSet):
        return v.mem
    if isinstance(k, tuple) and k[0] == 'opaque' and isinstance(v, VOpaque) and v.t is not None:
        return v.t
    raise EngineError(f'cannot store {v!r} as {k!r}')


def from_term(t, k) -> V:
    if k == 'int':
        return VInt(t)
    if k == 'real':
        return VReal(t)
    if k == 'bool':
        return VBool(t)
    if k in ('str', 'pstr'):
        return VStr(t)
    if isinstance(k, tuple) and k[0] == 'tuple':
        s = sort_of(k)
        return VTuple([from_term(s.accessor(0, i)(t), kk) for i, kk in enumerate(k[1:])])
    if isinstance(k, tuple) and k[0] == 'opt':
        s = sort_of(k)
        return VOpt(s.recognizer(0)(t), from_term(s.accessor(1, 0)(t), k[1]))
    if isinstance(k, tuple) and k[0] in ('list', 'array'):
        s = sort_of(k)
        return VSeq(k[1], s.accessor(0, 0)(t), s.accessor(0, 1)(t),
                    flavor='array' if k[0] == 'array' else 'list', dtype=k[2] if k[0] == 'array' else None)
    if isinstance(k, tuple) and k[0] == 'set':
        return VSet(k[1], t)
    if isinstance(k, tuple) and k[0] == 'opaque':
        return VOpaque(k[1], t)
    raise EngineError(f'cannot load kind {k!r}')


DTYPE_RANGE = {
    'int8': (-2**7, 2**7 - 1), 'int16': (-2**15, 2**15 - 1), 'int32': (-2**31, 2**31 - 1),
    'int64': (-2**63, 2**63 - 1), 'uint8': (0, 2**8 - 1), 'uint16': (0, 2**16 - 1),
    'uint32': (0, 2**32 - 1), 'uint64': (0, 2**64 - 1),
}


def fresh_value(k, base='v') -> V:
    """A fresh unconstrained symbolic value of kind k (range facts are added by the caller)."""
    n = fresh_name(base)
    if k == 'int':
        return VInt(z3.Int(n))
    if k == 'real':
        return VReal(z3.Real(n))
    if k == 'bool':
        return VBool(z3.Bool(n))
    if k == 'str':
        return VStr(z3.String(n))
    if k == 'pstr':
        return VStr(z3.Const(n, PSTR))
    if k == 'none':
        return VNone()
    if isinstance(k, tuple):
        if k[0] == 'tuple':
            return VTuple([fresh_value(x, base + f'.{i}') for i, x in enumerate(k[1:])])
        if k[0] == 'list':
            return VSeq(k[1], z3.Int(n + '.len'), z3.Array(n + '.arr', z3.IntSort(), sort_of(k[1])))
        if k[0] == 'array':
            return VSeq(k[1], z3.Int(n + '.len'), z3.Array(n + '.arr', z3.IntSort(), sort_of(k[1])),
                        flavor='array', dtype=k[2] if len(k) > 2 else None)
        if k[0] == 'array2':
            return VMat(k[1], z3.Int(n + '.rows'), z3.Int(n + '.cols'),
                        z3.Array(n + '.mat', z3.IntSort(), z3.ArraySort(z3.IntSort(), sort_of(k[1]))), dtype=k[2])
        if k[0] == 'set':
            return VSet(k[1], z3.Array(n + '.mem', sort_of(k[1]), z3.BoolSort()), z3.Int(n + '.card'))
        if k[0] == 'dict':
            return VDict(k[1], k[2], z3.Array(n + '.dom', sort_of(k[1]), z3.BoolSort()),
                         z3.Array(n + '.val', sort_of(k[1]), sort_of(k[2])), z3.Int(n + '.size'))
        if k[0] == 'opt':
            return VOpt(z3.Bool(n + '.isnone'), fresh_value(k[1], base))
        if k[0] == 'opaque':
            return VOpaque(k[1], z3.Const(n, sort_of(k)))
    raise EngineError(f'cannot make fresh value of kind {k!r}')


def parse_kind(s):
    """'int32[:]' -> ('array','int','int32'); 'list[tuple[str,str]]' -> ..."""
    import ast as _ast
    s = s.strip()
    if s.endswith('[:,:]'):
        base = s[:-5]
        return ('array2', 'int' if base.startswith(('int', 'uint')) else 'real', base)
    if s.endswith('[:]'):
        base = s[:-3]
        if base.startswith(('int', 'uint')):
            return ('array', 'int', base)
        if base.startswith('float'):
            return ('array', 'real', base)
        if base in ('bool', 'b1'):
            return ('array', 'bool', 'bool')
        if base == 'str':
            return ('array', 'str', 'str')
        raise EngineError(f'bad array kind {s}')
    node = _ast.parse(s, mode='eval').body

    def go(n):
        if isinstance(n, _ast.Name):
            m = {'int': 'int', 'float': 'real', 'real': 'real', 'bool': 'bool',
                 'str': 'pstr' if STRING_MODE[0] == 'opaque' else 'str', 'none': 'none',
                 'int32': 'int', 'uint32': 'int', 'float32': 'real', 'b1': 'bool'}
            if n.id in KIND_SUBST:
                return KIND_SUBST[n.id]
            if n.id in m:
                return m[n.id]
            return ('opaque', n.id)
        if isinstance(n, _ast.Subscript) and isinstance(n.slice, _ast.Slice):
            base = n.value.id
            if base.startswith(('int', 'uint')):
                return ('array', 'int', base)
            if base.startswith('float'):
                return ('array', 'real', base)
            return ('array', 'pstr' if STRING_MODE[0] == 'opaque' else 'str', 'str')
        if isinstance(n, _ast.Subscript):
            head = n.value.id
            args = n.slice.elts if isinstance(n.slice, _ast.Tuple) else [n.slice]
            ks = tuple(go(a) for a in args)
            if head == 'list':
                return ('list', ks[0])
            if head == 'set':
                return ('set', ks[0])
            if head == 'dict':
                return ('dict', ks[0], ks[1])
            if head == 'tuple':
                return ('tuple',) + ks
            if head == 'opt':
                return ('opt', ks[0])
            if head == 'counter':
                return ('counter', ks[0])
        raise EngineError(f'bad kind {s}')

    return go(node)


def is_concrete_true(t) -> bool:
    return z3.is_true(z3.simplify(t))


def is_concrete_false(t) -> bool:
    return z3.is_false(z3.simplify(t))
