from __future__ import annotations

import argparse
import json
import os
import sys


def main():
    ap = argparse.ArgumentParser()
    ap.add_argument('property')
    ap.add_argument('--tier', default=os.environ.get('VERIF_TIER', 'quick'), choices=['quick', 'thorough'])
    ap.add_argument('--replay', default=None)
    ap.add_argument('--seed', type=int, default=int(os.environ.get('VERIF_SEED', '0') or 0))
    a = ap.parse_args()
    from . import run
    if a.replay:
        from . import replay
        sys.exit(replay.main(a.property, a.replay))
    sys.exit(run.main(a.property, a.tier, a.seed))


if __name__ == '__main__':
    main()
