"""Property runner: generate obligations from the current working tree, discharge, replay, write evidence."""
from __future__ import annotations

import importlib
import json
import os
import subprocess
import sys
import time
import traceback

import z3

from . import frontend, solve, speclib
from .interp import Interp, Obligation
from .sym import EngineError

VERIF = os.path.dirname(os.path.dirname(os.path.abspath(__file__)))
NATIVE_PY = '/venv/bin/python'

GLOBAL_ASSUMPTIONS = [
    'Python int is mathematical; float/float32/float64 are mathematical reals (rounding, fastmath re-association ignored)',
    'np.log/np.sqrt/np.round are uninterpreted except for the axioms named in the obligations (log 1 = 0)',
    'numba compiles the verified Python text faithfully for its declared signature (trusted compiler)',
    'set iteration order is an arbitrary fixed enumeration; dict iteration is insertion order',
    'arrays/lists created inside a function are fresh; parameters alias only where the contract says so',
    'the pyvc engine itself (mitigated by native executable-contract cross-checks on the real code and by the mutation self-test)',
]


def load_known_findings():
    p = os.path.join(VERIF, 'known_findings.json')
    if not os.path.exists(p):
        return []
    with open(p) as fh:
        return json.load(fh).get('findings', [])


def lemma_obligations(pid, names):
    """Proof obligations of the lemmas used (closed under `uses`)."""
    todo, seen, obs = list(names), set(), []
    while todo:
        n = todo.pop()
        if n in seen:
            continue
        seen.add(n)
        lem = speclib.LEMMAS[n]
        todo.extend(lem['uses'])
        for label, f in lem['proof']:
            ob = Obligation(f'{pid}/lemma.{n}.{label}', [], f, text=f'lemma {n} ({label})')
            ob.lemmas = list(lem['uses'])
            ob.unfold = list(lem.get('unfold', []))
            obs.append(ob)
    return obs


def lemmas_for(c, obligation_name):
    """Lemma statements usable by an obligation: contract['lemma_map'] (substring of the obligation name -> lemmas)
    overrides the contract-wide default contract['lemmas'] (keeps expensive lemma statements out of unrelated queries)."""
    for sub, lems in (c.get('lemma_map') or {}).items():
        if sub in obligation_name:
            return list(lems)
    return list(c.get('lemmas', []))


def unfold_for(c, obligation_name):
    """Hidden definitions an obligation may unfold: contract['unfold_map'] (substring of the obligation name -> symbols)
    overrides the contract-wide contract['unfold'] (keeps recursive definitions out of queries that only need their lemmas)."""
    for sub, syms in (c.get('unfold_map') or {}).items():
        if sub in obligation_name:
            return list(syms)
    return list(c.get('unfold', []))


def generate(pid, prop, reg):
    """All obligations of a property from the current tree. Returns (obligations, interp-info, unbound)."""
    obligations, unbound, functions, dropped, trusted = [], [], [], [], set()
    used_lemmas = set(getattr(prop, 'LEMMAS', []))
    interp = None
    # modular verification: a property relies on the contracts of everything its functions call, so those callees are verified
    # in the same check (transitively).  CLOSURE = 'full' (default) | 'frame' (callees outside FUNCTIONS contribute only their
    # syntactic frame obligation: determinism properties) | 'none'
    closure = getattr(prop, 'CLOSURE', 'full')
    work = list(prop.FUNCTIONS)
    seen = set(work)
    while work:
        key = work.pop(0)
        c = reg[key]
        interp = Interp(reg, pid)
        t0 = time.time()
        frame_only = closure == 'frame' and key not in prop.FUNCTIONS
        try:
            obs = interp.frame_only(c) if frame_only else interp.verify(c)
        except EngineError as e:
            unbound.append({'function': key, 'reason': str(e)})
            if closure != 'none':
                for k2 in sorted(interp.applied - seen):
                    seen.add(k2)
                    work.append(k2)
            # syntactic frame obligations do not depend on the symbolic execution that failed: keep them
            for ob in interp.obligations:
                if ob.name.endswith('/frame.pure'):
                    ob.lemmas, ob.function = [], key
                    obligations.append(ob)
            continue
        for ob in obs:
            ob.lemmas = lemmas_for(c, ob.name)
            ob.unfold = unfold_for(c, ob.name)
            ob.function = key
            used_lemmas |= set(ob.lemmas)
        used_lemmas |= set(c.get('lemmas', []))
        obligations.extend(obs)
        functions.append({'function': f"{c['module']}:{c['qualname']}", 'ast_sha': c.get('_sha'),
                          'obligations': len(obs), 'vcgen_s': round(time.time() - t0, 3)})
        dropped.extend(interp.dropped)
        trusted |= interp.trusted
        if closure != 'none':
            for k2 in sorted(interp.applied - seen):
                seen.add(k2)
                work.append(k2)
    # functions used only as assumed function symbols (external contracts): the assumption "the result is a function of the
    # arguments" is at least checked syntactically (no module-level mutable state, RNG, clock, files, object identity)
    for key in getattr(prop, 'FRAME_ONLY', []):
        c = reg[key]
        interp = Interp(reg, pid)
        t0 = time.time()
        obs = interp.frame_only(c)
        for ob in obs:
            ob.lemmas, ob.unfold, ob.function = [], [], key
        obligations.extend(obs)
        functions.append({'function': f"{c['module']}:{c['qualname']}", 'ast_sha': c.get('_sha'),
                          'obligations': len(obs), 'vcgen_s': round(time.time() - t0, 3),
                          'scope': 'syntactic frame obligation only (assumed function symbol; values are checked by executable contract, bounded)'})
    if hasattr(prop, 'extra_obligations'):
        interp = Interp(reg, pid)
        for ob in prop.extra_obligations(interp, reg):
            if not hasattr(ob, 'lemmas'):
                ob.lemmas = []
            used_lemmas |= set(ob.lemmas)
            obligations.append(ob)
    obligations.extend(lemma_obligations(pid, used_lemmas))
    return obligations, functions, unbound, dropped, sorted(trusted)


def run_native(pid, tier, seed, extra_args=(), timeout=None):
    """Executable contracts on the real code (replay of stored witnesses, bounded stand-ins, cross-check)."""
    script = os.path.join(VERIF, 'native', f'{pid}.py')
    if not os.path.exists(script):
        return None
    scratch = os.path.join(VERIF, '.scratch', f'{pid}-{os.getpid()}')
    os.makedirs(scratch, exist_ok=True)
    env = dict(os.environ)
    env['NUMBA_CACHE_DIR'] = os.path.join(scratch, 'numba')
    env['PYTHONPYCACHEPREFIX'] = os.path.join(scratch, 'pyc')
    env['PYTHONPATH'] = frontend.repo_root() + os.pathsep + VERIF
    env['VERIF_REPO'] = frontend.repo_root()
    env['PYTHONDONTWRITEBYTECODE'] = '1'
    env.setdefault('PYTHONHASHSEED', '0')
    out = os.path.join(scratch, 'native.json')
    cmd = [NATIVE_PY, script, '--tier', tier, '--seed', str(seed), '--out', out, *extra_args]
    try:
        p = subprocess.run(cmd, cwd=scratch, env=env, capture_output=True, text=True,
                           timeout=timeout or (3600 if tier == 'thorough' else 900))
        if not os.path.exists(out):
            if p.returncode < 0 and os.path.exists(out + '.current'):
                # the real code crashed the interpreter: that is an outcome, not a checker error
                with open(out + '.current') as fh:
                    wit = json.load(fh)
                return {'evaluations': 1, 'distinct_nontrivial': 1, 'bounded': [], 'samples': [wit],
                        'failures': [{'clause': 'no_crash', 'witness': wit, 'witness_class': None, 'obligations': [],
                                      'detail': f'interpreter died with signal {-p.returncode} while evaluating this input',
                                      'count': 1}]}
            return {'error': f'native harness produced no output (exit {p.returncode}): {p.stderr[-2000:]}'}
        with open(out) as fh:
            res = json.load(fh)
        res['stderr_tail'] = p.stderr[-500:]
        return res
    except subprocess.TimeoutExpired:
        return {'error': 'native harness timed out'}
    finally:
        subprocess.run(['rm', '-rf', scratch])


def match_known(known, pid, name, witness_class=None):
    for k in known:
        if k.get('property') != pid or k.get('status') != 'known':
            continue
        if k.get('obligation') and name and (name == k['obligation'] or name.startswith(k['obligation'] + '#')):
            return k
        if witness_class is not None and k.get('witness_class') == witness_class and not k.get('obligation'):
            return k
    return None


def main(pid, tier='quick', seed=0, replay=None):
    t_start = time.time()
    sys.path.insert(0, VERIF)
    import contracts
    prop = importlib.import_module(f'props.{pid}')
    reg = contracts.load_all()
    known = load_known_findings()
    timeout_s = 40 if tier == "quick" else 120
    exit_code = 0
    lines = []
    try:
        obligations, functions, unbound, dropped, trusted = generate(pid, prop, reg)
    except Exception:
        traceback.print_exc()
        print(f'CHECKER-ERROR property={pid} vc generation crashed')
        return 3
    vcs = [o for o in obligations if o.kind == 'vc']
    if not vcs and not unbound:
        print(f'CHECKER-ERROR property={pid} zero obligations generated')
        return 3
    results = solve.discharge(obligations, timeout_s=timeout_s)
    if not os.environ.get('VERIF_EVIDENCE_DIR') and frontend.repo_root() == '/repo' and os.environ.get('VERIF_SAVE_HINTS'):
        solve.save_hints(results)
    native = run_native(pid, tier, seed)
    # escalation: when the prover lost its grip (an obligation undecided / a function left the subset) and the quick bounded
    # inputs found nothing, widen the bounded search once (thorough scope, capped) before concluding "nothing found"
    lost = [r for r in results if r.status in ('unknown', 'error') and r.ob.kind == 'vc'] or unbound
    if tier == 'quick' and lost and native and 'error' not in native and not native.get('failures'):
        wider = run_native(pid, 'thorough', seed, timeout=int(os.environ.get('VERIF_ESCALATE_S', '600')))
        if wider and 'error' not in wider:
            wider['escalated'] = True
            native = wider
        else:
            native['escalation'] = 'thorough scope did not finish within the cap: no additional verdict'
    # ---------------------------------------------------------------- verdicts
    proved = [r for r in results if r.status == 'proved']
    refuted = [r for r in results if r.status == 'refuted']
    unknown = [r for r in results if r.status in ('unknown', 'error')]
    # path splitting duplicates a program point once per path (suffix #k); a point is vacuous only if it is unreachable on every path
    import re as _re
    _base = lambda n: _re.sub(r'#\d+$', '', n)
    _alive = {_base(r.ob.name) for r in results if r.ob.kind == 'cover' and r.status != 'vacuous'}
    vacuous = [r for r in results if r.status == 'vacuous' and _base(r.ob.name) not in _alive]
    violations = []
    known_hits = []
    os.makedirs(os.path.join(VERIF, 'replay', pid), exist_ok=True)
    native_fail = (native or {}).get('failures', []) if native and 'error' not in native else []
    if native and 'error' in native:
        print(f'CHECKER-ERROR property={pid} native harness: {native["error"]}')
        exit_code = 3
    # refuted deductive obligations
    for r in refuted:
        name = r.ob.name
        k = match_known(known, pid, name)
        nname = name.replace('/', '.')
        witness = next((f for f in native_fail if any(o.replace('/', '.') in nname for o in f.get('obligations', []))
                        or (f.get('clause') and f['clause'] in nname)), None)
        if witness is None:
            fn_part = name.split('/')[1].split('.', 1)[-1] if name.count('/') >= 2 else ''
            witness = next((f for f in native_fail if fn_part and f.get('clause', '').startswith(fn_part)), None)
        if k is not None:
            known_hits.append((k, name))
            continue
        path = os.path.join(VERIF, 'replay', pid, _safe(name) + '.json')
        with open(path, 'w') as fh:
            json.dump({'property': pid, 'obligation': name, 'text': r.ob.text, 'backend': r.backend,
                       'solver_result': 'sat (negated goal satisfiable)', 'solver_model': r.model[:6000],
                       'witness': witness, 'replayed_on_real_code': witness is not None, 'tier': (native or {}).get('tier', tier), 'seed': seed,
                       'replay_cmd': f'./check {pid} --replay {path}'}, fh, indent=1)
        violations.append((name, path, witness is not None))
    # native failures that no refuted obligation accounts for
    for f in native_fail:
        k = None
        for kk in known:
            if kk.get('property') == pid and kk.get('status') == 'known' and kk.get('witness_class') == f.get('witness_class') \
                    and f.get('witness_class'):
                k = kk
        if k is not None:
            if (k, f.get('clause')) not in [(a, b) for a, b in known_hits]:
                known_hits.append((k, f.get('clause')))
            continue
        if any(f.get('clause') and f['clause'] in v[0].replace('/', '.') for v in violations):
            continue
        related = [r.ob.name for r in unknown + refuted
                   if f.get('clause') and f['clause'].split('.ensures')[0].split('.')[0] in r.ob.name]
        path = os.path.join(VERIF, 'replay', pid, _safe('native.' + str(f.get('clause'))) + '.json')
        with open(path, 'w') as fh:
            json.dump({'property': pid, 'obligation': f'native executable contract `{f.get("clause")}`',
                       'related_unproved_obligations': related,
                       'witness': f, 'replayed_on_real_code': True, 'tier': (native or {}).get('tier', tier), 'seed': seed,
                       'replay_cmd': f'./check {pid} --replay {path}'}, fh, indent=1)
        violations.append((f'native:{f.get("clause")}', path, True))
    printed = set()
    for k, name in known_hits:
        key = k.get('id', k.get('obligation'))
        if key in printed:
            continue
        printed.add(key)
        lines.append(f"KNOWN-FINDING: property={pid} {k.get('what', k.get('obligation'))}")
    for name, path, replayed in violations:
        suffix = '' if replayed else ' no-failing-input-found'
        lines.append(f'VIOLATION property={pid} replay={path} obligation={name}{suffix}')
        exit_code = 1 if exit_code == 0 else exit_code
    for r in unknown:
        lines.append(f'UNDECIDED obligation={r.ob.name} ({r.reason or r.status})')
    for u in unbound:
        lines.append(f"UNBOUND function={u['function']} {u['reason']}")
    replayed_any = any(replayed for _, _, replayed in violations)
    for r in vacuous:
        lines.append(f'CHECKER-ERROR property={pid} vacuous: {r.ob.name} is unreachable (contradictory assumptions)')
        # an unreachable program point makes the deductive verdicts of this run unreliable; a violation that was replayed on the
        # real code with a concrete input stands on its own
        exit_code = 1 if replayed_any else 3
    # ---------------------------------------------------------------- evidence
    known_names = {name for _, name in known_hits}
    counted = [r for r in results if r.ob.kind == 'vc' and r.ob.name not in known_names]
    n_ob = len(counted) + len(unbound)
    n_dis = len([r for r in counted if r.status == 'proved'])
    backends = {}
    for r in counted:
        if r.status == 'proved':
            backends[r.backend] = backends.get(r.backend, 0) + 1
    samples = []
    for r in counted[:6]:
        samples.append({'obligation': r.ob.name, 'clause': r.ob.text[:300], 'status': r.status,
                        'backend': r.backend, 'solver_s': round(r.seconds, 3),
                        'n_assumptions': len(r.ob.assumptions), 'goal': str(z3.simplify(r.ob.goal))[:400]})
    level = getattr(prop, 'LEVEL', 'proof')
    complete = (n_dis == n_ob and n_ob > 0)
    coverage = {
        'obligations': n_ob, 'discharged': n_dis,
        'checker_cmd': f'./check {pid} --tier {tier}',
        'trusted_base': sorted(set(trusted) | set(getattr(prop, 'TRUSTED', []))),
        'functions_under_contract': functions,
        'backends': backends,
        'solver_time_total_s': round(sum(r.seconds for r in results), 3),
        'solver_time_max_s': round(max([r.seconds for r in results] or [0]), 3),
        'reachability_covers': {'reachable': len([r for r in results if r.status == 'reachable']),
                                'undecided': len([r for r in results if r.status == 'reachable?']),
                                'vacuous': len(vacuous)},
        'undecided': [r.ob.name for r in unknown], 'unbound': unbound,
        'known_finding_obligations': sorted(n for n in known_names if n),
        'dropped_on_extraction': sorted(set(dropped)),
        'all_obligations': [{'name': r.ob.name, 'status': r.status, 'backend': r.backend, 's': round(r.seconds, 3)}
                            for r in results],
        'samples': samples,
        'bounded_standins': (native or {}).get('bounded', []),
        'native_crosscheck': {k: v for k, v in (native or {}).items() if k in ('evaluations', 'distinct_nontrivial', 'rule', 'replays')},
        'repo_root': frontend.repo_root(),
        'explanation': getattr(prop, 'EXPLANATION', ''),
    }
    if native and 'evaluations' in native:
        coverage['evaluations'] = int(native['evaluations'])
        coverage['distinct_nontrivial'] = int(native.get('distinct_nontrivial', 0))
        coverage['rule'] = native.get('rule', '')
    if not complete and level == 'proof':
        # never claim proof for a run that left obligations open: downgrade this run
        level = 'other'
        coverage['explanation'] = ('DOWNGRADED: not every obligation was discharged in this run; ' + coverage['explanation'])
    ev = {'property_id': pid, 'tier': tier, 'seed': int(seed), 'level': level, 'coverage': coverage,
          'assumptions': GLOBAL_ASSUMPTIONS + list(getattr(prop, 'ASSUMPTIONS', [])),
          'wall_s': round(time.time() - t_start, 2), 'violations': len(violations)}
    evdir = os.environ.get('VERIF_EVIDENCE_DIR') or os.path.join(VERIF, 'evidence')
    os.makedirs(evdir, exist_ok=True)
    with open(os.path.join(evdir, f'{pid}.json'), 'w') as fh:
        json.dump(ev, fh, indent=1)
    for ln in lines:
        print(ln)
    print(f'{pid}: obligations={n_ob} discharged={n_dis} refuted={len(refuted)} undecided={len(unknown)} '
          f'unbound={len(unbound)} known={len(printed)} native_eval={coverage.get("evaluations", 0)} '
          f'wall={ev["wall_s"]}s exit={exit_code}')
    return exit_code


def _safe(s):
    return ''.join(ch if ch.isalnum() or ch in '._-' else '_' for ch in s)[:150]
