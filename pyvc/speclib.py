"""Spec functions (z3 side) and the lemma library.

Every spec function is an uninterpreted z3 function with defining axioms (recursive definitions are given as
quantified axioms with explicit patterns).  Inductive facts are *lemmas*: each has a statement and proof
obligations (base / step) that are discharged by the solver on every run, after which the statement may be
used as an axiom by the obligations that list it.
The executable (native Python) twins live in pyvc/native_spec.py.
"""
from __future__ import annotations

import z3

from .sym import EngineError, VBool, VInt, VReal, VSeq, VStr, VTuple, fresh_name, to_term

I_ = z3.IntSort()
R_ = z3.RealSort()
B_ = z3.BoolSort()
AII = z3.ArraySort(I_, I_)
AIB = z3.ArraySort(I_, B_)
AIR = z3.ArraySort(I_, R_)

LOG = z3.Function('log', R_, R_)
CNT = z3.Function('cnt', AII, I_, I_, I_)          # cnt(A, v, m) = #{i < m : A[i] == v}
CNTT = z3.Function('cntT', AIB, I_, I_)            # cntT(M, m)   = #{i < m : M[i]}
SUMI = z3.Function('sumI', AII, I_, I_)            # sumI(A, m)   = sum_{i<m} A[i]
SUMR = z3.Function('sumR', AIR, I_, R_)            # sumR(A, m)   = sum_{i<m} A[i]
G = z3.Function('g', R_, R_)                       # g(p) = 0 if p == 0 else -p*log(p)
ENT = z3.Function('entsum', AII, R_, I_, R_)       # entsum(C, d, k) = sum_{t<k} g(C[t]/d)
FLOAT_REPR = z3.Function('float_repr', R_, z3.StringSort())
STR_TO_FLOAT = z3.Function('str_to_float', z3.StringSort(), R_)

PYMOD = z3.Function('pymod', I_, I_, I_)           # python's x % y (sign of the divisor)
SPEC_FUNCS: dict = {}
AXIOMS: list = []      # (name, formula, defines-decl-name)
LEMMAS: dict = {}      # name -> dict(statement=formula, proof=[(label, formula)], uses=[axiom/lemma names])


OPAQUE_DEFS = set()    # names of definitional axioms that are hidden unless an obligation asks to `unfold` their symbol


def axiom(name, formula, decl, opaque=False):
    AXIOMS.append((name, formula, decl))
    if opaque:
        OPAQUE_DEFS.add(name)


def spec(name):
    def deco(f):
        SPEC_FUNCS[name] = f
        return f
    return deco


def float_repr(t):
    return FLOAT_REPR(t)


def str_to_float(t):
    return STR_TO_FLOAT(t)


# ----------------------------------------------------------------------------- definitions

_A = z3.Const('A', AII)
_M = z3.Const('M', AIB)
_Rr = z3.Const('Rr', AIR)
_v = z3.Int('v')
_m = z3.Int('m')
_d = z3.Real('d')
_p = z3.Real('p')

_x0 = z3.Int('x0')
_y0 = z3.Int('y0')
axiom('pymod.range', z3.ForAll([_x0, _y0], z3.And(
    z3.Implies(_y0 > 0, z3.And(PYMOD(_x0, _y0) >= 0, PYMOD(_x0, _y0) < _y0)),
    z3.Implies(_y0 < 0, z3.And(PYMOD(_x0, _y0) <= 0, PYMOD(_x0, _y0) > _y0))), patterns=[PYMOD(_x0, _y0)]), 'pymod')
axiom('pymod.def', z3.ForAll([_x0, _y0], z3.Implies(_y0 > 0, PYMOD(_x0, _y0) == _x0 % _y0),
                             patterns=[PYMOD(_x0, _y0)]), 'pymod')
axiom('log.one', LOG(z3.RealVal(1)) == 0, 'log')
axiom('cnt.base', z3.ForAll([_A, _v], CNT(_A, _v, 0) == 0, patterns=[CNT(_A, _v, 0)]), 'cnt')
axiom('cnt.step', z3.ForAll([_A, _v, _m], z3.Implies(
    _m > 0, CNT(_A, _v, _m) == CNT(_A, _v, _m - 1) + z3.If(_A[_m - 1] == _v, 1, 0)), patterns=[CNT(_A, _v, _m)]), 'cnt')
axiom('cntT.base', z3.ForAll([_M], CNTT(_M, 0) == 0, patterns=[CNTT(_M, 0)]), 'cntT')
axiom('cntT.step', z3.ForAll([_M, _m], z3.Implies(
    _m > 0, CNTT(_M, _m) == CNTT(_M, _m - 1) + z3.If(_M[_m - 1], 1, 0)), patterns=[CNTT(_M, _m)]), 'cntT')
axiom('sumI.base', z3.ForAll([_A], SUMI(_A, 0) == 0, patterns=[SUMI(_A, 0)]), 'sumI')
axiom('sumI.step', z3.ForAll([_A, _m], z3.Implies(_m > 0, SUMI(_A, _m) == SUMI(_A, _m - 1) + _A[_m - 1]),
                             patterns=[SUMI(_A, _m)]), 'sumI')
axiom('sumR.base', z3.ForAll([_Rr], SUMR(_Rr, 0) == 0, patterns=[SUMR(_Rr, 0)]), 'sumR')
axiom('sumR.step', z3.ForAll([_Rr, _m], z3.Implies(_m > 0, SUMR(_Rr, _m) == SUMR(_Rr, _m - 1) + _Rr[_m - 1]),
                             patterns=[SUMR(_Rr, _m)]), 'sumR')
axiom('g.def', z3.ForAll([_p], G(_p) == z3.If(_p == 0, z3.RealVal(0), -(_p * LOG(_p))), patterns=[G(_p)]), 'g')
axiom('entsum.base', z3.ForAll([_A, _d], ENT(_A, _d, 0) == 0, patterns=[ENT(_A, _d, 0)]), 'entsum')
axiom('entsum.step', z3.ForAll([_A, _d, _m], z3.Implies(
    _m > 0, ENT(_A, _d, _m) == ENT(_A, _d, _m - 1) + G(z3.ToReal(_A[_m - 1]) / _d)), patterns=[ENT(_A, _d, _m)]), 'entsum')


def lemma(name, statement, proof, uses=(), unfold=()):
    LEMMAS[name] = dict(statement=statement, proof=proof, uses=list(uses), unfold=list(unfold))


def _induction(P, n):
    """base and step formulas for  forall n >= 0. P(n)."""
    return [('base', P(z3.IntVal(0))), ('step', z3.ForAll([n], z3.Implies(z3.And(n >= 0, P(n)), P(n + 1))))]


_n = z3.Int('n')
lemma('cnt_bounds',
      z3.ForAll([_A, _v, _m], z3.Implies(_m >= 0, z3.And(CNT(_A, _v, _m) >= 0, CNT(_A, _v, _m) <= _m)),
                patterns=[CNT(_A, _v, _m)]),
      [(lab, z3.ForAll([_A, _v], f)) for lab, f in
       _induction(lambda n: z3.And(CNT(_A, _v, n) >= 0, CNT(_A, _v, n) <= n), _n)])
lemma('cntT_bounds',
      z3.ForAll([_M, _m], z3.Implies(_m >= 0, z3.And(CNTT(_M, _m) >= 0, CNTT(_M, _m) <= _m)), patterns=[CNTT(_M, _m)]),
      [(lab, z3.ForAll([_M], f)) for lab, f in
       _induction(lambda n: z3.And(CNTT(_M, n) >= 0, CNTT(_M, n) <= n), _n)])


def install(I):
    for name, f, decl in AXIOMS:
        I.add_axiom(name, f)


# ----------------------------------------------------------------------------- engine-facing helpers


def cnt_true(I, mask_arr, n, mask):
    """count of true cells of a bool sequence / non-zero cells of an int sequence (np.count_nonzero)."""
    if getattr(mask, 'zerosrc', None) is not None:
        return z3.Function('cntz', AIR, I_, I_)(mask.zerosrc, n)
    src = getattr(mask, 'eqsrc', None)
    if src is not None:
        if len(src) == 3:
            return CG(src[2][0], src[2][1], src[1], n)
        return CNT(src[0], src[1], n)
    if mask.ek == 'bool':
        return CNTT(mask.arr, n)
    i = z3.Int(fresh_name('i'))
    return CNTT(z3.Lambda([i], mask.arr[i] != 0), n)


def seq_sum(I, st, v):
    if v.init is not None:
        j = z3.Int(fresh_name('j'))
        I.oblige(st, 'defined[sum]', z3.ForAll([j], z3.Implies(z3.And(j >= 0, j < v.length), v.init[j])))
    if v.arr is None:
        return VInt(0)
    if v.ek == 'int':
        return VInt(SUMI(v.arr, v.length))
    if v.ek == 'real':
        return VReal(SUMR(v.arr, v.length))
    if v.ek == 'bool':
        return VInt(CNTT(v.arr, v.length))
    raise EngineError('sum of non-numeric sequence')


# ----------------------------------------------------------------------------- spec-language functions


@spec('implies')
def sp_implies(I, st, args, kwargs):
    return VBool(z3.Implies(I.truth(args[0], st), I.truth(args[1], st)))


@spec('iff')
def sp_iff(I, st, args, kwargs):
    return VBool(I.truth(args[0], st) == I.truth(args[1], st))


_CNT_BY_SORT = {}


def cnt_fn(ek):
    """cnt over sequences of any element kind: one function + defining axioms + bounds lemmas per sort."""
    from .sym import sort_of, kind_name
    if ek == 'int':
        return CNT
    if ek in _CNT_BY_SORT:
        return _CNT_BY_SORT[ek]
    es = sort_of(ek)
    nm = 'cnt_' + kind_name(ek)
    arr = z3.ArraySort(I_, es)
    F = z3.Function(nm, arr, es, I_, I_)
    A = z3.Const('A_' + nm, arr)
    v = z3.Const('v_' + nm, es)
    axiom(nm + '.base', z3.ForAll([A, v], F(A, v, 0) == 0, patterns=[F(A, v, 0)]), nm)
    axiom(nm + '.step', z3.ForAll([A, v, _m], z3.Implies(_m > 0, F(A, v, _m) == F(A, v, _m - 1) + z3.If(A[_m - 1] == v, 1, 0)),
                                  patterns=[F(A, v, _m)]), nm)
    lemma(nm + '_bounds',
          z3.ForAll([A, v, _m], z3.Implies(_m >= 0, z3.And(F(A, v, _m) >= 0, F(A, v, _m) <= _m)), patterns=[F(A, v, _m)]),
          [(lab, z3.ForAll([A, v], f)) for lab, f in _induction(lambda n: z3.And(F(A, v, n) >= 0, F(A, v, n) <= n), _n)])
    lemma(nm + '_absent',
          z3.ForAll([A, v, _m], z3.Implies(
              z3.And(_m >= 0, z3.ForAll([_i], z3.Implies(z3.And(_i >= 0, _i < _m), A[_i] != v))), F(A, v, _m) == 0),
              patterns=[F(A, v, _m)]),
          [(lab, z3.ForAll([A, v], f)) for lab, f in _induction(
              lambda n: z3.Implies(z3.ForAll([_i], z3.Implies(z3.And(_i >= 0, _i < n), A[_i] != v)), F(A, v, n) == 0), _n)])
    lemma(nm + '_present',
          z3.ForAll([A, v, _m, _i], z3.Implies(z3.And(_i >= 0, _i < _m, A[_i] == v), F(A, v, _m) >= 1),
                    patterns=[z3.MultiPattern(F(A, v, _m), A[_i])]),
          [(lab, z3.ForAll([A, v], f)) for lab, f in _induction(
              lambda n: z3.ForAll([_i], z3.Implies(z3.And(_i >= 0, _i < n, A[_i] == v), F(A, v, n) >= 1)), _n)],
          uses=[nm + '_bounds'])
    lemma(nm + '_distinct',
          # in a duplicate-free sequence every value occurs at most once
          z3.ForAll([A, v, _m], z3.Implies(
              z3.And(_m >= 0, z3.ForAll([_i, _j], z3.Implies(z3.And(0 <= _i, _i < _j, _j < _m), A[_i] != A[_j]))),
              F(A, v, _m) <= 1), patterns=[F(A, v, _m)]),
          [(lab, z3.ForAll([A, v], f)) for lab, f in _induction(
              lambda n: z3.Implies(z3.ForAll([_i, _j], z3.Implies(z3.And(0 <= _i, _i < _j, _j < n), A[_i] != A[_j])),
                                   F(A, v, n) <= 1), _n)],
          uses=[nm + '_bounds', nm + '_absent'])
    _CNT_BY_SORT[ek] = F
    return F


@spec('cnt')
def sp_cnt(I, st, args, kwargs):
    a, v, m = args
    if not isinstance(a, VSeq):
        raise EngineError('cnt(A, v, m): A must be a sequence')
    if a.arr is None:
        return VInt(0)
    return VInt(cnt_fn(a.ek)(a.arr, to_term(v, a.ek), to_term(m, 'int')))


@spec('cntT')
def sp_cntT(I, st, args, kwargs):
    a, m = args
    return VInt(CNTT(a.arr, to_term(m, 'int')))


@spec('sumI')
def sp_sumI(I, st, args, kwargs):
    a, m = args
    return VInt(SUMI(a.arr, to_term(m, 'int')))


@spec('log')
def sp_log(I, st, args, kwargs):
    return VReal(LOG(to_term(args[0], 'real')))


@spec('g')
def sp_g(I, st, args, kwargs):
    return VReal(G(to_term(args[0], 'real')))


@spec('entsum')
def sp_entsum(I, st, args, kwargs):
    c, d, k = args
    return VReal(ENT(c.arr, to_term(d, 'real'), to_term(k, 'int')))


@spec('ite')
def sp_ite(I, st, args, kwargs):
    return I.ite(I.truth(args[0], st), args[1], args[2])


@spec('defined')
def sp_defined(I, st, args, kwargs):
    """defined(A, i): cell i of A is initialised."""
    a, i = args
    if a.init is None:
        return VBool(True)
    return VBool(a.init[to_term(i, 'int')])


@spec('same_seq')
def sp_same_seq(I, st, args, kwargs):
    a, b = args
    return VBool(I.equal(a, b, st))


_i = z3.Int('i')
lemma('cnt_absent',
      z3.ForAll([_A, _v, _m], z3.Implies(
          z3.And(_m >= 0, z3.ForAll([_i], z3.Implies(z3.And(_i >= 0, _i < _m), _A[_i] != _v))),
          CNT(_A, _v, _m) == 0), patterns=[CNT(_A, _v, _m)]),
      [(lab, z3.ForAll([_A, _v], f)) for lab, f in _induction(
          lambda n: z3.Implies(z3.ForAll([_i], z3.Implies(z3.And(_i >= 0, _i < n), _A[_i] != _v)), CNT(_A, _v, n) == 0), _n)])

lemma('cnt_present',
      z3.ForAll([_A, _v, _m, _i], z3.Implies(z3.And(_i >= 0, _i < _m, _A[_i] == _v), CNT(_A, _v, _m) >= 1),
                patterns=[z3.MultiPattern(CNT(_A, _v, _m), _A[_i])]),
      [(lab, z3.ForAll([_A, _v], f)) for lab, f in _induction(
          lambda n: z3.ForAll([_i], z3.Implies(z3.And(_i >= 0, _i < n, _A[_i] == _v), CNT(_A, _v, n) >= 1)), _n)],
      uses=['cnt_bounds'])


# ----------------------------------------------------------------------------- entropy / stratum specs (C01-C04)
WG = z3.Function('wg', R_, R_, R_)                    # wg(w, p) = 0 if p == 0 else -((w*p)*log p)
WENT = z3.Function('went', R_, AII, R_, I_, R_)       # went(w, C, d, k) = sum_{t<k} wg(w, C[t]/d)
WH = z3.Function('where_idx', AII, I_, I_, AII)       # ascending indices i < n with X[i] == f
WK = z3.Function('where_len', AII, I_, I_, I_)
WRK = z3.Function('where_rank', AII, I_, I_, I_, I_)
CG = z3.Function('cntg', AII, AII, I_, I_, I_)        # cntg(Y, W, c, K) = #{k < K : Y[W[k]] == c}
CGS = z3.Function('cntgs', AII, AII, I_, I_, I_, I_, I_)   # cntgs(Y, W, s, n, c, K) = #{k < K : Y[(W[k]+s) mod n] == c}
ROW = z3.Function('row', AII, AII, I_, AII, AII)      # row(Y, W, K, cv)[t] = cntg(Y, W, cv[t], K)
ROWS = z3.Function('rows', AII, AII, I_, I_, I_, AII, AII)  # rows(Y, W, K, s, n, cv)[t] = cntgs(Y, W, s, n, cv[t], K)

_w = z3.Real('w')
_X = z3.Const('X', AII)
_Y = z3.Const('Y', AII)
_W = z3.Const('W', AII)
_C = z3.Const('C', AII)
_cv = z3.Const('cv', AII)
_f = z3.Int('f')
_c = z3.Int('c')
_k = z3.Int('k')
_k2 = z3.Int('k2')
_K = z3.Int('K')
_s = z3.Int('s')
_t = z3.Int('t')

axiom('wg.def', z3.ForAll([_w, _p], WG(_w, _p) == z3.If(_p == 0, z3.RealVal(0), -((_w * _p) * LOG(_p))),
                          patterns=[WG(_w, _p)]), 'wg')
axiom('went.base', z3.ForAll([_w, _C, _d], WENT(_w, _C, _d, 0) == 0, patterns=[WENT(_w, _C, _d, 0)]), 'went')
axiom('went.step', z3.ForAll([_w, _C, _d, _m], z3.Implies(
    _m > 0, WENT(_w, _C, _d, _m) == WENT(_w, _C, _d, _m - 1) + WG(_w, z3.ToReal(_C[_m - 1]) / _d)),
    patterns=[WENT(_w, _C, _d, _m)]), 'went')
axiom('where.len', z3.ForAll([_X, _m, _f], z3.Implies(_m >= 0, z3.And(
    WK(_X, _m, _f) == CNT(_X, _f, _m), WK(_X, _m, _f) >= 0, WK(_X, _m, _f) <= _m)), patterns=[WK(_X, _m, _f)]), 'where_len')
axiom('where.elems', z3.ForAll([_X, _m, _f, _k], z3.Implies(
    z3.And(_k >= 0, _k < WK(_X, _m, _f)),
    z3.And(WH(_X, _m, _f)[_k] >= 0, WH(_X, _m, _f)[_k] < _m, _X[WH(_X, _m, _f)[_k]] == _f,
           WRK(_X, _m, _f, WH(_X, _m, _f)[_k]) == _k)), patterns=[WH(_X, _m, _f)[_k]]), 'where_idx')
axiom('where.increasing', z3.ForAll([_X, _m, _f, _k, _k2], z3.Implies(
    z3.And(_k >= 0, _k < _k2, _k2 < WK(_X, _m, _f)), WH(_X, _m, _f)[_k] < WH(_X, _m, _f)[_k2]),
    patterns=[z3.MultiPattern(WH(_X, _m, _f)[_k], WH(_X, _m, _f)[_k2])]), 'where_idx')
axiom('where.complete', z3.ForAll([_X, _m, _f, _v], z3.Implies(
    z3.And(_v >= 0, _v < _m, _X[_v] == _f),
    z3.And(WRK(_X, _m, _f, _v) >= 0, WRK(_X, _m, _f, _v) < WK(_X, _m, _f), WH(_X, _m, _f)[WRK(_X, _m, _f, _v)] == _v)),
    patterns=[WRK(_X, _m, _f, _v)]), 'where_rank')
axiom('cntg.base', z3.ForAll([_Y, _W, _c], CG(_Y, _W, _c, 0) == 0, patterns=[CG(_Y, _W, _c, 0)]), 'cntg')
axiom('cntg.step', z3.ForAll([_Y, _W, _c, _K], z3.Implies(
    _K > 0, CG(_Y, _W, _c, _K) == CG(_Y, _W, _c, _K - 1) + z3.If(_Y[_W[_K - 1]] == _c, 1, 0)),
    patterns=[CG(_Y, _W, _c, _K)]), 'cntg')
axiom('cntgs.base', z3.ForAll([_Y, _W, _s, _m, _c], CGS(_Y, _W, _s, _m, _c, 0) == 0,
                              patterns=[CGS(_Y, _W, _s, _m, _c, 0)]), 'cntgs')
axiom('cntgs.step', z3.ForAll([_Y, _W, _s, _m, _c, _K], z3.Implies(
    _K > 0, CGS(_Y, _W, _s, _m, _c, _K) == CGS(_Y, _W, _s, _m, _c, _K - 1)
    + z3.If(_Y[PYMOD(_W[_K - 1] + _s, _m)] == _c, 1, 0)), patterns=[CGS(_Y, _W, _s, _m, _c, _K)]), 'cntgs')
axiom('row.def', z3.ForAll([_Y, _W, _K, _cv, _t], ROW(_Y, _W, _K, _cv)[_t] == CG(_Y, _W, _cv[_t], _K),
                           patterns=[ROW(_Y, _W, _K, _cv)[_t]]), 'row')
axiom('rows.def', z3.ForAll([_Y, _W, _K, _s, _m, _cv, _t],
                            ROWS(_Y, _W, _K, _s, _m, _cv)[_t] == CGS(_Y, _W, _s, _m, _cv[_t], _K),
                            patterns=[ROWS(_Y, _W, _K, _s, _m, _cv)[_t]]), 'rows')

_B = z3.Const('B', AII)
lemma('cnt_ext',
      z3.ForAll([_A, _B, _v, _m], z3.Implies(
          z3.ForAll([_i], z3.Implies(z3.And(_i >= 0, _i < _m), _A[_i] == _B[_i])), CNT(_A, _v, _m) == CNT(_B, _v, _m)),
          patterns=[z3.MultiPattern(CNT(_A, _v, _m), CNT(_B, _v, _m))]),
      [(lab, z3.ForAll([_A, _B, _v], f)) for lab, f in _induction(
          lambda n: z3.Implies(z3.ForAll([_i], z3.Implies(z3.And(_i >= 0, _i < n), _A[_i] == _B[_i])),
                               CNT(_A, _v, n) == CNT(_B, _v, n)), _n)])
lemma('went_ext',
      z3.ForAll([_w, _A, _B, _d, _m], z3.Implies(
          z3.ForAll([_i], z3.Implies(z3.And(_i >= 0, _i < _m), _A[_i] == _B[_i])),
          WENT(_w, _A, _d, _m) == WENT(_w, _B, _d, _m)),
          patterns=[z3.MultiPattern(WENT(_w, _A, _d, _m), WENT(_w, _B, _d, _m))]),
      [(lab, z3.ForAll([_w, _A, _B, _d], f)) for lab, f in _induction(
          lambda n: z3.Implies(z3.ForAll([_i], z3.Implies(z3.And(_i >= 0, _i < n), _A[_i] == _B[_i])),
                               WENT(_w, _A, _d, n) == WENT(_w, _B, _d, n)), _n)])
lemma('went_zero01',
      # a stratum of size one contributes nothing: every count is 0 or 1 and d == 1
      z3.ForAll([_w, _A, _m], z3.Implies(
          z3.And(_m >= 0, z3.ForAll([_i], z3.Implies(z3.And(_i >= 0, _i < _m), z3.Or(_A[_i] == 0, _A[_i] == 1)))),
          WENT(_w, _A, z3.RealVal(1), _m) == 0), patterns=[WENT(_w, _A, z3.RealVal(1), _m)]),
      [(lab, z3.ForAll([_w, _A], f)) for lab, f in _induction(
          lambda n: z3.Implies(z3.ForAll([_i], z3.Implies(z3.And(_i >= 0, _i < n), z3.Or(_A[_i] == 0, _A[_i] == 1))),
                               WENT(_w, _A, z3.RealVal(1), n) == 0), _n)])
lemma('cntg_bounds',
      z3.ForAll([_Y, _W, _c, _K], z3.Implies(_K >= 0, z3.And(CG(_Y, _W, _c, _K) >= 0, CG(_Y, _W, _c, _K) <= _K)),
                patterns=[CG(_Y, _W, _c, _K)]),
      [(lab, z3.ForAll([_Y, _W, _c], f)) for lab, f in _induction(
          lambda n: z3.And(CG(_Y, _W, _c, n) >= 0, CG(_Y, _W, _c, n) <= n), _n)])
lemma('cntgs_bounds',
      z3.ForAll([_Y, _W, _s, _m, _c, _K], z3.Implies(_K >= 0, z3.And(CGS(_Y, _W, _s, _m, _c, _K) >= 0,
                                                                     CGS(_Y, _W, _s, _m, _c, _K) <= _K)),
                patterns=[CGS(_Y, _W, _s, _m, _c, _K)]),
      [(lab, z3.ForAll([_Y, _W, _s, _m, _c], f)) for lab, f in _induction(
          lambda n: z3.And(CGS(_Y, _W, _s, _m, _c, n) >= 0, CGS(_Y, _W, _s, _m, _c, n) <= n), _n)])


@spec('wg')
def sp_wg(I, st, args, kwargs):
    return VReal(WG(to_term(args[0], 'real'), to_term(args[1], 'real')))


@spec('went')
def sp_went(I, st, args, kwargs):
    w, c, d, k = args
    return VReal(WENT(to_term(w, 'real'), c.arr, to_term(d, 'real'), to_term(k, 'int')))


def _seq(arr, n, dtype=None):
    return VSeq('int', n, arr, flavor='array', dtype=dtype)


@spec('where_idx')
def sp_where_idx(I, st, args, kwargs):
    x, f = args
    return _seq(WH(x.arr, x.length, to_term(f, 'int')), WK(x.arr, x.length, to_term(f, 'int')), 'int64')


@spec('cntg')
def sp_cntg(I, st, args, kwargs):
    y, w, c, k = args
    return VInt(CG(y.arr, w.arr, to_term(c, 'int'), to_term(k, 'int')))


@spec('cntgs')
def sp_cntgs(I, st, args, kwargs):
    y, w, s, n, c, k = args
    return VInt(CGS(y.arr, w.arr, to_term(s, 'int'), to_term(n, 'int'), to_term(c, 'int'), to_term(k, 'int')))


@spec('row')
def sp_row(I, st, args, kwargs):
    y, w, cv = args
    return _seq(ROW(y.arr, w.arr, w.length, cv.arr), cv.length)


def sp_rows_mi(I, st, args, kwargs):
    y, w, s, cv = args
    return _seq(ROWS(y.arr, w.arr, w.length, to_term(s, 'int'), y.length, cv.arr), cv.length)


# conditional-entropy sums over the strata of X (spec of H(Y|X) and of the displaced-copy H(Y*|X))
CS = z3.Function('condsum', AII, I_, AII, AII, AII, I_, AII, I_, I_, R_)
CSB = z3.Function('condsum_bg', AII, I_, AII, AII, AII, I_, AII, I_, I_, R_)
_fv = z3.Const('fv', AII)
_fc = z3.Const('fc', AII)
_nx = z3.Int('nx')
_na = z3.Int('na')
_Ky = z3.Int('Ky')
_j = z3.Int('j')


def term_plain(X, nx, Y, f, fc, na, cv, Ky):
    return WENT(z3.ToReal(fc) / z3.ToReal(na), ROW(Y, WH(X, nx, f), WK(X, nx, f), cv), z3.ToReal(fc), Ky)


def term_bg(X, nx, Y, f, fc, na, cv, Ky):
    return WENT(z3.ToReal(fc) / z3.ToReal(na), ROWS(Y, WH(X, nx, f), WK(X, nx, f), fc, nx, cv), z3.ToReal(fc), Ky)


_cs_args = [_X, _nx, _Y, _fv, _fc, _na, _cv, _Ky]
# condsum / condsum_bg: the sums as the code accumulates them (a stratum whose recorded count is 1 is skipped);
# condsum_ns / condsum_bg_ns: the plain mathematical sums of the statement (no special case).
# Lemma condsum_noskip: they coincide whenever the recorded counts cover the actual stratum sizes.
CSN = z3.Function('condsum_ns', AII, I_, AII, AII, AII, I_, AII, I_, I_, R_)
CSBN = z3.Function('condsum_bg_ns', AII, I_, AII, AII, AII, I_, AII, I_, I_, R_)


def _def_sum(F, name, term, skip):
    axiom(f'{name}.base', z3.ForAll(_cs_args, F(*_cs_args, 0) == 0, patterns=[F(*_cs_args, 0)]), name)
    t = term(_X, _nx, _Y, _fv[_j - 1], _fc[_j - 1], _na, _cv, _Ky)
    if skip:
        t = z3.If(_fc[_j - 1] == 1, z3.RealVal(0), t)
    axiom(f'{name}.step', z3.ForAll(_cs_args + [_j], z3.Implies(_j > 0, F(*_cs_args, _j) == F(*_cs_args, _j - 1) + t),
                                    patterns=[F(*_cs_args, _j)]), name)


_def_sum(CS, 'condsum', term_plain, True)
_def_sum(CSB, 'condsum_bg', term_bg, True)
_def_sum(CSN, 'condsum_ns', term_plain, False)
_def_sum(CSBN, 'condsum_bg_ns', term_bg, False)


def _cover(n):
    return z3.ForAll([_i], z3.Implies(z3.And(_i >= 0, _i < n), z3.And(CNT(_X, _fv[_i], _nx) <= _fc[_i], _fc[_i] >= 1)))


for _nm, _F, _FN in (('condsum_noskip', CS, CSN), ('condsum_bg_noskip', CSB, CSBN)):
    lemma(_nm,
          z3.ForAll(_cs_args + [_j], z3.Implies(z3.And(_j >= 0, _nx >= 0, _Ky >= 0, _cover(_j)),
                                                _F(*_cs_args, _j) == _FN(*_cs_args, _j)),
                    patterns=[_F(*_cs_args, _j)]),
          [(lab, z3.ForAll(_cs_args, z3.Implies(z3.And(_nx >= 0, _Ky >= 0), f))) for lab, f in _induction(
              lambda n, _F=_F, _FN=_FN: z3.Implies(_cover(n), _F(*_cs_args, n) == _FN(*_cs_args, n)), _n)],
          uses=['went_zero01', 'cntg_bounds', 'cntgs_bounds', 'cnt_bounds'])

_S = z3.Const('S', AII)
lemma('cnt_shift',
      z3.ForAll([_S, _Y, _W, _s, _m, _c, _K], z3.Implies(
          z3.ForAll([_i], z3.Implies(z3.And(_i >= 0, _i < _K), _S[_i] == _Y[PYMOD(_W[_i] + _s, _m)])),
          CNT(_S, _c, _K) == CGS(_Y, _W, _s, _m, _c, _K)),
          patterns=[z3.MultiPattern(CNT(_S, _c, _K), CGS(_Y, _W, _s, _m, _c, _K))]),
      [(lab, z3.ForAll([_S, _Y, _W, _s, _m, _c], f)) for lab, f in _induction(
          lambda n: z3.Implies(z3.ForAll([_i], z3.Implies(z3.And(_i >= 0, _i < n), _S[_i] == _Y[PYMOD(_W[_i] + _s, _m)])),
                               CNT(_S, _c, n) == CGS(_Y, _W, _s, _m, _c, n)), _n)])


def _cs(fn):
    def f(I, st, args, kwargs):
        X, Y, fv, fc, na, cv, j = args
        return VReal(fn(X.arr, X.length, Y.arr, fv.arr, fc.arr, to_term(na, 'int'), cv.arr, cv.length, to_term(j, 'int')))
    return f


SPEC_FUNCS['condsum'] = _cs(CS)
SPEC_FUNCS['condsum_bg'] = _cs(CSB)
SPEC_FUNCS['condsum_ns'] = _cs(CSN)
SPEC_FUNCS['condsum_bg_ns'] = _cs(CSBN)


# stratified sub-sampling (C04): offs(X, nx, fv, q, j) = sum_{i<j} min(q, |{rows with X == fv[i]}|)
OFFS = z3.Function('offs', AII, I_, AII, I_, I_, I_)
_q = z3.Int('q')
_off_args = [_X, _nx, _fv, _q]


def _zmin(a, b):
    return z3.If(a < b, a, b)


axiom('offs.base', z3.ForAll(_off_args, OFFS(*_off_args, 0) == 0, patterns=[OFFS(*_off_args, 0)]), 'offs')
axiom('offs.step', z3.ForAll(_off_args + [_j], z3.Implies(
    _j > 0, OFFS(*_off_args, _j) == OFFS(*_off_args, _j - 1) + _zmin(_q, WK(_X, _nx, _fv[_j - 1]))),
    patterns=[OFFS(*_off_args, _j)]), 'offs')
lemma('offs_mono',
      z3.ForAll(_off_args + [_j, _k], z3.Implies(z3.And(0 <= _j, _j <= _k, _q >= 0, _nx >= 0),
                                                 z3.And(OFFS(*_off_args, _j) <= OFFS(*_off_args, _k), OFFS(*_off_args, _j) >= 0)),
                patterns=[z3.MultiPattern(OFFS(*_off_args, _j), OFFS(*_off_args, _k))]),
      [(lab, z3.ForAll(_off_args, z3.Implies(z3.And(_q >= 0, _nx >= 0), f))) for lab, f in _induction(
          lambda n: z3.ForAll([_j], z3.Implies(z3.And(0 <= _j, _j <= n),
                                               z3.And(OFFS(*_off_args, _j) <= OFFS(*_off_args, n), OFFS(*_off_args, _j) >= 0))), _n)])


lemma('offs_block',
      z3.ForAll(_off_args + [_j, _k], z3.Implies(
          z3.And(0 <= _j, _j < _k, _q >= 0, _nx >= 0),
          OFFS(*_off_args, _j) + _zmin(_q, WK(_X, _nx, _fv[_j])) <= OFFS(*_off_args, _k)),
          patterns=[z3.MultiPattern(OFFS(*_off_args, _j), OFFS(*_off_args, _k))]),
      [(lab, z3.ForAll(_off_args, z3.Implies(z3.And(_q >= 0, _nx >= 0), f))) for lab, f in _induction(
          lambda n: z3.ForAll([_j], z3.Implies(z3.And(0 <= _j, _j < n),
                                               OFFS(*_off_args, _j) + _zmin(_q, WK(_X, _nx, _fv[_j])) <= OFFS(*_off_args, n))), _n)])


@spec('offs')
def sp_offs(I, st, args, kwargs):
    X, fv, q, j = args
    return VInt(OFFS(X.arr, X.length, fv.arr, to_term(q, 'int'), to_term(j, 'int')))


@spec('min2')
def sp_min2(I, st, args, kwargs):
    a, b = to_term(args[0], 'int'), to_term(args[1], 'int')
    return VInt(z3.If(a < b, a, b))


# ----------------------------------------------------------------------------- sketches (C15)
lemma('sum_pointupdate',
      # two rows that agree everywhere except at cell j: their sums differ by the difference at j
      z3.ForAll([_A, _B, _j, _m], z3.Implies(
          z3.And(_m >= 0, z3.ForAll([_i], z3.Implies(z3.And(_i >= 0, _i < _m, _i != _j), _B[_i] == _A[_i]))),
          SUMI(_B, _m) == SUMI(_A, _m) + z3.If(z3.And(_j >= 0, _j < _m), _B[_j] - _A[_j], 0)),
          patterns=[z3.MultiPattern(SUMI(_B, _m), SUMI(_A, _m), _B[_j])]),
      [(lab, z3.ForAll([_A, _B, _j], f)) for lab, f in _induction(
          lambda n: z3.Implies(z3.ForAll([_i], z3.Implies(z3.And(_i >= 0, _i < n, _i != _j), _B[_i] == _A[_i])),
                               SUMI(_B, n) == SUMI(_A, n) + z3.If(z3.And(_j >= 0, _j < n), _B[_j] - _A[_j], 0)), _n)])
lemma('sum_ge_elem',
      z3.ForAll([_A, _j, _m], z3.Implies(
          z3.And(_j >= 0, _j < _m, z3.ForAll([_i], z3.Implies(z3.And(_i >= 0, _i < _m), _A[_i] >= 0))),
          z3.And(_A[_j] <= SUMI(_A, _m), SUMI(_A, _m) >= 0)), patterns=[z3.MultiPattern(SUMI(_A, _m), _A[_j])]),
      [(lab, z3.ForAll([_A], f)) for lab, f in _induction(
          lambda n: z3.Implies(z3.ForAll([_i], z3.Implies(z3.And(_i >= 0, _i < n), _A[_i] >= 0)),
                               z3.And(SUMI(_A, n) >= 0, z3.ForAll([_j], z3.Implies(z3.And(_j >= 0, _j < n), _A[_j] <= SUMI(_A, n))))), _n)])


@spec('cms_h')
def sp_cms_h(I, st, args, kwargs):
    """the sketch's hash: ((hash(x) mod 2^32) + seed) mod width  (python/numba `hash` uninterpreted)."""
    from .sym import sort_of
    x, seed, width = args
    f = z3.Function('pyhash_' + str(sort_of(x.kind)), sort_of(x.kind), I_)
    return VInt(PYMOD(PYMOD(f(to_term(x, x.kind)), z3.IntVal(2**32)) + to_term(seed, 'int'), to_term(width, 'int')))


@spec('rows')
def sp_nrows(I, st, args, kwargs):
    from .sym import VMat
    if isinstance(args[0], VMat):
        return VInt(args[0].rows)
    return sp_rows_mi(I, st, args, kwargs)


@spec('cols')
def sp_ncols(I, st, args, kwargs):
    return VInt(args[0].cols)


@spec('fn')
def sp_fn(I, st, args, kwargs):
    """fn("name", a, b, ...): the (real-valued) function symbol `name` applied to the flattened arguments - the same
    symbol that `function_symbol` contracts attach to deterministic repository / library functions."""
    name = args[0].concrete()
    terms = [t for a in args[1:] for t in I.flatten_terms(a)]
    F = z3.Function(name, *[t.sort() for t in terms], R_)
    return VReal(F(*terms))


CNT2 = z3.Function('cnt2', AII, AII, I_, I_, I_, I_)      # cnt2(A, B, x, y, m) = #{i < m : A[i] == x and B[i] == y}
_x1 = z3.Int('x1')
_y1 = z3.Int('y1')
axiom('cnt2.base', z3.ForAll([_A, _B, _x1, _y1], CNT2(_A, _B, _x1, _y1, 0) == 0, patterns=[CNT2(_A, _B, _x1, _y1, 0)]), 'cnt2')
axiom('cnt2.step', z3.ForAll([_A, _B, _x1, _y1, _m], z3.Implies(_m > 0, CNT2(_A, _B, _x1, _y1, _m) == CNT2(_A, _B, _x1, _y1, _m - 1)
      + z3.If(z3.And(_A[_m - 1] == _x1, _B[_m - 1] == _y1), 1, 0)), patterns=[CNT2(_A, _B, _x1, _y1, _m)]), 'cnt2')
lemma('cnt2_bounds',
      z3.ForAll([_A, _B, _x1, _y1, _m], z3.Implies(_m >= 0, z3.And(CNT2(_A, _B, _x1, _y1, _m) >= 0, CNT2(_A, _B, _x1, _y1, _m) <= _m)),
                patterns=[CNT2(_A, _B, _x1, _y1, _m)]),
      [(lab, z3.ForAll([_A, _B, _x1, _y1], f)) for lab, f in _induction(
          lambda n: z3.And(CNT2(_A, _B, _x1, _y1, n) >= 0, CNT2(_A, _B, _x1, _y1, n) <= n), _n)])


@spec('cnt2')
def sp_cnt2(I, st, args, kwargs):
    a, b, x, y, m = args
    return VInt(CNT2(a.arr, b.arr, to_term(x, 'int'), to_term(y, 'int'), to_term(m, 'int')))


@spec('same_array')
def sp_same_array(I, st, args, kwargs):
    """identical sequence objects as values: same length and the same cell array (stronger than same_seq)."""
    a, b = args
    return VBool(z3.And(a.length == b.length, a.arr == b.arr))


@spec('pair_score')
def sp_pair_score(I, st, args, kwargs):
    """score of the pair (a, b) on a coded frame under args: the selected heuristic on the two coded columns with the
    label as conditioning side (= the `pure` value of get_importances_estimate_pairwise's contract)."""
    a, b, df, ar = args
    lab = ar.fields['label_column']
    ca = I.stubs.frame_column(I, st, df, a).fields['values']
    cb = I.stubs.frame_column(I, st, df, b).fields['values']
    cl = I.stubs.frame_column(I, st, df, lab).fields['values']
    c = I.equal(a, lab, st)
    first = I.ite(c, cb, ca)
    second = I.ite(c, cl, cb)
    return sp_fn(I, st, [VStr('fn_rank'), first, second, ar.fields['heuristic'], ar.fields['mi_stratified_sampling_ratio']], {})


# ----------------------------------------------------------------------------- HyperLogLog (C14)
@spec('hll_bucket')
def sp_hll_bucket(I, st, args, kwargs):
    return VInt(PYMOD(I.stubs._h32(args[0]), z3.IntVal(2**19)))


@spec('hll_rho')
def sp_hll_rho(I, st, args, kwargs):
    h = I.stubs._h32(args[0])
    w = z3.If(z3.IntVal(2**19) > 0, h / z3.IntVal(2**19), h / z3.IntVal(2**19))
    return VInt(45 - I.stubs.BITLEN(w))


CNTZ = z3.Function('cntz', AIR, I_, I_)       # number of cells i < m with A[i] == 0 (real-valued registers)
axiom('cntz.base', z3.ForAll([_Rr], CNTZ(_Rr, 0) == 0, patterns=[CNTZ(_Rr, 0)]), 'cntz')
axiom('cntz.step', z3.ForAll([_Rr, _m], z3.Implies(_m > 0, CNTZ(_Rr, _m) == CNTZ(_Rr, _m - 1) + z3.If(_Rr[_m - 1] == 0, 1, 0)),
                             patterns=[CNTZ(_Rr, _m)]), 'cntz')
HLL_EST = z3.Function('hll_estimate', I_, I_)


@spec('cntz')
def sp_cntz(I, st, args, kwargs):
    return VInt(CNTZ(args[0].arr, to_term(args[1], 'int')))


@spec('hll_estimate')
def sp_hll_est(I, st, args, kwargs):
    """the linear-counting estimate as computed by __len__, as a function of the number of empty registers:
    z -> int(ceil(m * log(m / z))) - 1, or 2^19 when that is infinite."""
    z = to_term(args[0], 'int')
    return VInt(HLL_EST(z))


@spec('ceil')
def sp_ceil(I, st, args, kwargs):
    return I.stubs.s_ceil(I, st, args, kwargs)


@spec('npdivide')
def sp_npdivide(I, st, args, kwargs):
    return I.stubs.s_npdivide(I, st, args, kwargs)


@spec('inf')
def sp_inf(I, st, args, kwargs):
    return VReal(z3.Real('np.inf'))


# ----------------------------------------------------------------------------- 3MR (C17)
def _mr3_syms(I):
    """first-order symbols for the 3MR aggregates over opaque-string names (built lazily: need the tuple sort)."""
    from . import sym as _sym
    from .sym import sort_of
    if not hasattr(I.speclib, '_MR3'):
        P = _sym.PSTR
        T2 = sort_of(('tuple', 'pstr', 'pstr'))
        DOM = z3.ArraySort(T2, B_)
        VAL = z3.ArraySort(T2, R_)
        RA = z3.ArraySort(I_, P)
        VALS3 = z3.Function('vals3', DOM, VAL, RA, P, AIR)
        AGG3 = z3.Function('agg3', P, DOM, VAL, RA, I_, P, R_)
        dom, val, R, R2 = z3.Const('dom3', DOM), z3.Const('val3', VAL), z3.Const('R3', RA), z3.Const('R3b', RA)
        f, sgy = z3.Const('f3', P), z3.Const('s3', P)
        mk = T2.constructor(0)
        axiom('vals3.def', z3.ForAll([dom, val, R, f, _i], VALS3(dom, val, R, f)[_i] == z3.If(
            dom[mk(R[_i], f)], val[mk(R[_i], f)], z3.RealVal(0)), patterns=[VALS3(dom, val, R, f)[_i]]), 'vals3', opaque=True)
        A = I.stubs.agg_fn
        V = VALS3(dom, val, R, f)
        axiom('agg3.def', z3.ForAll([sgy, dom, val, R, _t, f], AGG3(sgy, dom, val, R, _t, f) == z3.If(
            sgy == _sym.pstr_lit('median'), A('median')(_t, V),
            z3.If(sgy == _sym.pstr_lit('mean'), A('mean')(_t, V), A('sum')(_t, V))),
            patterns=[AGG3(sgy, dom, val, R, _t, f)]), 'agg3', opaque=True)
        lemma('agg3_prefix',
              # the aggregate over the first t ranked features does not depend on later cells of the ranked list
              z3.ForAll([sgy, dom, val, R, R2, _t, f], z3.Implies(
                  z3.ForAll([_i], z3.Implies(z3.And(_i >= 0, _i < _t), R[_i] == R2[_i])),
                  AGG3(sgy, dom, val, R, _t, f) == AGG3(sgy, dom, val, R2, _t, f)),
                  patterns=[z3.MultiPattern(AGG3(sgy, dom, val, R, _t, f), AGG3(sgy, dom, val, R2, _t, f))]),
              [('direct', z3.ForAll([sgy, dom, val, R, R2, _t, f], z3.Implies(
                  z3.ForAll([_i], z3.Implies(z3.And(_i >= 0, _i < _t), R[_i] == R2[_i])),
                  AGG3(sgy, dom, val, R, _t, f) == AGG3(sgy, dom, val, R2, _t, f))))], unfold=['agg3', 'vals3'])
        I.speclib._MR3 = (VALS3, AGG3)
    return I.speclib._MR3


@spec('vals3')
def sp_vals3(I, st, args, kwargs):
    """vals3(d, ranked, t, f): the list [d.get((ranked[i], f), 0) for i < t] (missing pairs count as 0)."""
    d, ranked, t, f = args
    VALS3, _ = _mr3_syms(I)
    return VSeq('real', to_term(t, 'int'), VALS3(d.dom, d.val, ranked.arr, f.t), flavor='list')


@spec('agg3')
def sp_agg3(I, st, args, kwargs):
    """agg3(strategy, d, ranked, t, f): median / mean / sum (by strategy) of vals3(d, ranked, t, f); the aggregates
    themselves are uninterpreted and shared by code and spec."""
    strategy, d, ranked, t, f = args
    _, AGG3 = _mr3_syms(I)
    return VReal(AGG3(strategy.t, d.dom, d.val, ranked.arr, to_term(t, 'int'), f.t))


@spec('some')
def sp_some(I, st, args, kwargs):
    from .sym import VOpt
    v = args[0]
    return v.val if isinstance(v, VOpt) else v


@spec('is_neg_inf')
def sp_is_neg_inf(I, st, args, kwargs):
    v = args[0]
    return VBool(v.inf == -1 if getattr(v, 'inf', None) is not None else False)


@spec('finite')
def sp_finite(I, st, args, kwargs):
    v = args[0]
    return VBool(v.inf == 0 if getattr(v, 'inf', None) is not None else True)


# ----------------------------------------------------------------------------- presets / opaque string helpers (C12)
def _ps(I):
    return I.stubs._psym()


@spec('pd_has')
def sp_pd_has(I, st, args, kwargs):
    return VBool(_ps(I)['PD_HAS'](args[0].t, args[1].t))


@spec('pd_val')
def sp_pd_val(I, st, args, kwargs):
    return VStr(_ps(I)['PD_VAL'](args[0].t, args[1].t))


@spec('vault_has')
def sp_vault_has(I, st, args, kwargs):
    d = _ps(I)
    ns, k = args
    pd = d['VAULT_GET'](ns.t)
    return VBool(z3.And(d['VAULT_KNOWN'](ns.t), d['PD_HAS'](pd, k.t)))


@spec('vault_val')
def sp_vault_val(I, st, args, kwargs):
    d = _ps(I)
    return VStr(d['PD_VAL'](d['VAULT_GET'](args[0].t), args[1].t))


@spec('split_part')
def sp_split_part(I, st, args, kwargs):
    s_, sep, j = args
    return VStr(_ps(I)['SPLIT_PART'](s_.t, sep.t, to_term(j, 'int')))


@spec('split_count')
def sp_split_count(I, st, args, kwargs):
    return VInt(_ps(I)['SPLIT_COUNT'](args[0].t, args[1].t))


@spec('str_replace')
def sp_str_replace(I, st, args, kwargs):
    return VStr(_ps(I)['REPLACE'](args[0].t, args[1].t, args[2].t))


@spec('parse_float')
def sp_parse_float(I, st, args, kwargs):
    return VReal(_ps(I)['PFLOAT'](args[0].t))


# ----------------------------------------------------------------------------- line formats (C16)
@spec('tsv_line')
def sp_tsv_line(I, st, args, kwargs):
    """the rendered line of a field list: sep.join(fields) + terminator."""
    from . import sym as _sym
    fields, sep, term = args
    d = I.stubs._lsym()
    return VStr(_sym.PCONCAT(d['JOIN'](sep.t, fields.length, fields.arr), term.t))


@spec('csv_parse')
def sp_csv_parse(I, st, args, kwargs):
    from .sym import from_term
    d = I.stubs._lsym()
    return from_term(d['CSVREC'](args[0].t), ('list', 'pstr'))


@spec('fn_list')
def sp_fn_list(I, st, args, kwargs):
    """fn_list("name", a, ...): like fn(), for function symbols whose value is a list of strings."""
    from .sym import from_term, sort_of, parse_kind
    name = args[0].concrete()
    terms = [t for a in args[1:] for t in I.flatten_terms(a)]
    k = parse_kind('list[str]')
    F = z3.Function(name, *[t.sort() for t in terms], sort_of(k))
    return from_term(F(*terms), k)


@spec('colcnt')
def sp_colcnt(I, st, args, kwargs):
    """colcnt(df, c, v): number of rows of frame df whose cell in column c equals v."""
    df, c, v = args
    col = I.stubs.frame_column(I, st, df, c).fields['values']
    return VInt(cnt_fn(col.ek)(col.arr, to_term(v, col.ek), col.length))


# ----------------------------------------------------------------------------- feature summary (C18)
def _sum_syms(I):
    from . import sym as _sym
    if not hasattr(I.speclib, '_SUMSYM'):
        P = _sym.PSTR
        AP = z3.ArraySort(I_, P)
        d = I.stubs._psym()
        SELCNT = z3.Function('selcnt', P, AP, AP, I_, I_)
        lab, A, B = z3.Const('sl_lab', P), z3.Const('sl_A', AP), z3.Const('sl_B', AP)
        dash = _sym.pstr_lit('-')

        def sel(i):
            return z3.Or(lab == d['SPLIT_PART'](A[i], dash, 0), lab == d['SPLIT_PART'](B[i], dash, 0))
        axiom('selcnt.base', z3.ForAll([lab, A, B], SELCNT(lab, A, B, 0) == 0, patterns=[SELCNT(lab, A, B, 0)]), 'selcnt')
        axiom('selcnt.step', z3.ForAll([lab, A, B, _m], z3.Implies(_m > 0, SELCNT(lab, A, B, _m) == SELCNT(lab, A, B, _m - 1) + z3.If(sel(_m - 1), 1, 0)),
                                       patterns=[SELCNT(lab, A, B, _m)]), 'selcnt')
        lemma('selcnt_mono',
              z3.ForAll([lab, A, B, _i, _m], z3.Implies(z3.And(0 <= _i, _i <= _m), z3.And(
                  SELCNT(lab, A, B, _i) <= SELCNT(lab, A, B, _m), SELCNT(lab, A, B, _i) >= 0,
                  z3.Implies(z3.And(_i < _m, sel(_i)), SELCNT(lab, A, B, _i) < SELCNT(lab, A, B, _m)))),
                  patterns=[z3.MultiPattern(SELCNT(lab, A, B, _i), SELCNT(lab, A, B, _m))]),
              [(l_, z3.ForAll([lab, A, B], f)) for l_, f in _induction(
                  lambda n: z3.ForAll([_i], z3.Implies(z3.And(0 <= _i, _i <= n), z3.And(
                      SELCNT(lab, A, B, _i) <= SELCNT(lab, A, B, n), SELCNT(lab, A, B, _i) >= 0,
                      z3.Implies(z3.And(_i < n, sel(_i)), SELCNT(lab, A, B, _i) < SELCNT(lab, A, B, n))))), _n)])
        I.speclib._SUMSYM = SELCNT
    return I.speclib._SUMSYM


@spec('selcnt')
def sp_selcnt(I, st, args, kwargs):
    """selcnt(label, triplets, k): number of the first k rows whose A or B name (text before the first '-') is the label."""
    lab, t, k = args
    return VInt(_sum_syms(I)(lab.t, t.fields['A'].arr, t.fields['B'].arr, to_term(k, 'int')))


@spec('name_prefix')
def sp_name_prefix(I, st, args, kwargs):
    from . import sym as _sym
    return VStr(I.stubs._psym()['SPLIT_PART'](args[0].t, _sym.pstr_lit('-'), 0))


@spec('median_of')
def sp_median_of(I, st, args, kwargs):
    """median_of(pairs, name): median of the scores paired with `name` in the list of [name, score] (pandas groupby.median)."""
    pairs, name = args
    t = I.stubs._pairs_to_table(I, st, pairs)
    M = I.stubs._table_syms()
    return VReal(M(t.fields['keys'].arr, t.fields['vals'].arr, pairs.length, name.t))


@spec('sumR')
def sp_sumR(I, st, args, kwargs):
    a, m = args
    return VReal(SUMR(a.arr, to_term(m, 'int')))


@spec('last')
def sp_last(I, st, args, kwargs):
    """last(pylist): the most recently appended entry of a python-level list (e.g. dataset_info['duplicates'])."""
    return args[0].fields['items'][-1]


@spec('count_items')
def sp_count_items(I, st, args, kwargs):
    return VInt(len(args[0].fields['items']))


@spec('nrows')
def sp_nrows2(I, st, args, kwargs):
    return VInt(args[0].rows)


@spec('ncols')
def sp_ncols2(I, st, args, kwargs):
    return VInt(args[0].cols)


@spec('sin')
def sp_sin(I, st, args, kwargs):
    return VReal(I.stubs.SIN(to_term(args[0], 'real')))


@spec('rowsum')
def sp_rowsum(I, st, args, kwargs):
    """rowsum(X, idx, r): sum over the selected columns idx of row r of X."""
    X, idx, r = args
    rr = to_term(r, 'int')
    c_ = z3.Int('c!rowsum')
    sel = z3.Lambda([c_], X.arr[rr][idx.arr[c_]])
    return VInt(SUMI(sel, idx.length)) if X.ek == 'int' else VReal(SUMR(sel, idx.length))


# ----------------------------------------------------------------------------- streaming (C08)
def _stream_syms(I):
    from .sym import sort_of
    if not hasattr(I.speclib, '_STREAM'):
        NV = z3.Function('nvalid', AII, I_, I_, I_, I_)       # nvalid(nf, s, nc, k): selected lines with the right field count among the first k
        NI = z3.Function('ninvalid', AII, I_, I_, I_, I_)     # ... with a wrong field count
        nf = z3.Const('st_nf', AII)
        s_, nc = z3.Int('st_s'), z3.Int('st_nc')

        def sel(i):
            return PYMOD(i + 1, s_) == 0
        for F, name, cond in ((NV, 'nvalid', lambda i: z3.And(sel(i), nf[i] == nc)), (NI, 'ninvalid', lambda i: z3.And(sel(i), nf[i] != nc))):
            axiom(name + '.base', z3.ForAll([nf, s_, nc], F(nf, s_, nc, 0) == 0, patterns=[F(nf, s_, nc, 0)]), name)
            axiom(name + '.step', z3.ForAll([nf, s_, nc, _m], z3.Implies(_m > 0, F(nf, s_, nc, _m) == F(nf, s_, nc, _m - 1) + z3.If(cond(_m - 1), 1, 0)),
                                            patterns=[F(nf, s_, nc, _m)]), name)
        lemma('nvalid_mono',
              z3.ForAll([nf, s_, nc, _i, _m], z3.Implies(z3.And(0 <= _i, _i <= _m), z3.And(
                  NV(nf, s_, nc, _i) <= NV(nf, s_, nc, _m), NV(nf, s_, nc, _i) >= 0,
                  z3.Implies(z3.And(_i < _m, sel(_i), nf[_i] == nc), NV(nf, s_, nc, _i) < NV(nf, s_, nc, _m)))),
                  patterns=[z3.MultiPattern(NV(nf, s_, nc, _i), NV(nf, s_, nc, _m))]),
              [(l_, z3.ForAll([nf, s_, nc], f)) for l_, f in _induction(
                  lambda n: z3.ForAll([_i], z3.Implies(z3.And(0 <= _i, _i <= n), z3.And(
                      NV(nf, s_, nc, _i) <= NV(nf, s_, nc, n), NV(nf, s_, nc, _i) >= 0,
                      z3.Implies(z3.And(_i < n, sel(_i), nf[_i] == nc), NV(nf, s_, nc, _i) < NV(nf, s_, nc, n))))), _n)])
        ROW = sort_of(('list', 'pstr'))
        TRIP = sort_of(('tuple', 'pstr', 'pstr', 'real'))
        TL = sort_of(('list', ('tuple', 'pstr', 'pstr', 'real')))
        AR = z3.ArraySort(I_, ROW)
        # triplets produced by ranking the batch rows A[off .. off+n) as batch number j (global state evolves with j)
        BTRIP = z3.Function('batch_triplets', AR, I_, I_, I_, TL)
        A1, A2 = z3.Const('st_A1', AR), z3.Const('st_A2', AR)
        o1, o2, n_, j_ = z3.Int('st_o1'), z3.Int('st_o2'), z3.Int('st_n'), z3.Int('st_j')
        axiom('batch_triplets.rows_only', z3.ForAll([A1, o1, A2, o2, n_, j_], z3.Implies(
            z3.ForAll([_t], z3.Implies(z3.And(_t >= 0, _t < n_), A1[o1 + _t] == A2[o2 + _t])),
            BTRIP(A1, o1, n_, j_) == BTRIP(A2, o2, n_, j_)),
            patterns=[z3.MultiPattern(BTRIP(A1, o1, n_, j_), BTRIP(A2, o2, n_, j_))]), 'batch_triplets')
        axiom('batch_triplets.len', z3.ForAll([A1, o1, n_, j_], TL.accessor(0, 0)(BTRIP(A1, o1, n_, j_)) >= 0, patterns=[BTRIP(A1, o1, n_, j_)]), 'batch_triplets')
        # offsets of the batches inside the concatenated triplet list
        TOFF = z3.Function('trip_off', AR, I_, I_, I_)     # trip_off(C, B, j) = sum_{i<j} len(batch_triplets(C, i*B, B, i))
        C_, B_sz = z3.Const('st_C', AR), z3.Int('st_B')
        lenf = TL.accessor(0, 0)
        # the j-th full batch of size B: batch_j(C, B, j) = batch_triplets(C, j*B, B, j)  (keeps j*B out of quantified invariants)
        BJ = z3.Function('batch_j', AR, I_, I_, TL)
        axiom('batch_j.def', z3.ForAll([C_, B_sz, _j], BJ(C_, B_sz, _j) == BTRIP(C_, _j * B_sz, B_sz, _j), patterns=[BJ(C_, B_sz, _j)]),
              'batch_j', opaque=True)
        axiom('batch_j.len', z3.ForAll([C_, B_sz, _j], lenf(BJ(C_, B_sz, _j)) >= 0, patterns=[BJ(C_, B_sz, _j)]), 'batch_j')
        axiom('trip_off.base', z3.ForAll([C_, B_sz], TOFF(C_, B_sz, 0) == 0, patterns=[TOFF(C_, B_sz, 0)]), 'trip_off')
        axiom('trip_off.step', z3.ForAll([C_, B_sz, _j], z3.Implies(_j > 0, TOFF(C_, B_sz, _j) == TOFF(C_, B_sz, _j - 1)
              + lenf(BJ(C_, B_sz, _j - 1))), patterns=[TOFF(C_, B_sz, _j)]), 'trip_off')
        lemma('trip_off_block',
              # batch j occupies [trip_off(j), trip_off(j) + len(batch j)) which lies below trip_off(k) for every later k
              z3.ForAll([C_, B_sz, _j, _k], z3.Implies(z3.And(0 <= _j, _j < _k),
                        z3.And(TOFF(C_, B_sz, _j) >= 0, TOFF(C_, B_sz, _j) + lenf(BJ(C_, B_sz, _j)) <= TOFF(C_, B_sz, _k))),
                        patterns=[z3.MultiPattern(TOFF(C_, B_sz, _j), TOFF(C_, B_sz, _k))]),
              [(l_, z3.ForAll([C_, B_sz], f)) for l_, f in _induction(
                  lambda n: z3.And(TOFF(C_, B_sz, n) >= 0, z3.ForAll([_j], z3.Implies(z3.And(0 <= _j, _j < n), z3.And(
                      TOFF(C_, B_sz, _j) >= 0, TOFF(C_, B_sz, _j) + lenf(BJ(C_, B_sz, _j)) <= TOFF(C_, B_sz, n))))), _n)])
        I.speclib._STREAM = dict(NV=NV, NI=NI, BTRIP=BTRIP, TOFF=TOFF, TL=TL, lenf=lenf, BJ=BJ)
    return I.speclib._STREAM


@spec('nvalid')
def sp_nvalid(I, st, args, kwargs):
    nf, s_, nc, k = args
    return VInt(_stream_syms(I)['NV'](nf.arr, to_term(s_, 'int'), to_term(nc, 'int'), to_term(k, 'int')))


@spec('ninvalid')
def sp_ninvalid(I, st, args, kwargs):
    nf, s_, nc, k = args
    return VInt(_stream_syms(I)['NI'](nf.arr, to_term(s_, 'int'), to_term(nc, 'int'), to_term(k, 'int')))


@spec('batch_triplets')
def sp_batch_triplets(I, st, args, kwargs):
    from .sym import from_term
    rows, off, n, j = args
    d = _stream_syms(I)
    return from_term(d['BTRIP'](rows.arr, to_term(off, 'int'), to_term(n, 'int'), to_term(j, 'int')), ('list', ('tuple', 'pstr', 'pstr', 'real')))


@spec('trip_off')
def sp_trip_off(I, st, args, kwargs):
    rows, B, j = args
    return VInt(_stream_syms(I)['TOFF'](rows.arr, to_term(B, 'int'), to_term(j, 'int')))


@spec('lenpos')
def sp_lenpos(I, st, args, kwargs):
    """every batch result is a list: len >= 0 (type invariant of list-valued function symbols)."""
    return VBool(True)


@spec('fn_opaque')
def sp_fn_opaque(I, st, args, kwargs):
    """fn_opaque("name", "Sort", a, ...): function symbol with a result of an uninterpreted sort (e.g. a grouped frame)."""
    from .sym import VOpaque, sort_of
    name, srt = args[0].concrete(), args[1].concrete()
    terms = [t for a in args[2:] for t in I.flatten_terms(a)]
    F = z3.Function(name, *[t.sort() for t in terms], sort_of(('opaque', srt)))
    return VOpaque(srt, F(*terms))


@spec('batch_j')
def sp_batch_j(I, st, args, kwargs):
    """batch_j(consumed, B, j): triplets of the j-th full batch, i.e. batch_triplets(consumed, j*B, B, j)."""
    from .sym import from_term
    rows, B, j = args
    d = _stream_syms(I)
    return from_term(d['BJ'](rows.arr, to_term(B, 'int'), to_term(j, 'int')), ('list', ('tuple', 'pstr', 'pstr', 'real')))


# ----------------------------------------------------------------------------- interaction features (C10)
def _c10_syms():
    """lpcat(D, N, k, i, s): concatenation of the length-prefixed cells of row i in the columns N[s], ..., N[k-1] of frame D."""
    from . import sym as _sym
    from .sym import sort_of
    from . import stubs as _stubs
    if hasattr(_c10_syms, 'd'):
        return _c10_syms.d
    d = _stubs._slaw()
    P = _sym.PSTR
    FD = sort_of(('opaque', 'FrameData'))
    AP = z3.ArraySort(z3.IntSort(), P)
    COL = z3.Function('frame_col_str', FD, P, AP)
    LPCAT = z3.Function('lpcat', FD, AP, I_, I_, I_, P)
    LP, C = d['LP'], _sym.PCONCAT
    D, N = z3.Const('c10_D', FD), z3.Const('c10_N', AP)
    k, i, j, s, c, dd = (z3.Int('c10_' + n) for n in ('k', 'i', 'j', 's', 'c', 'd'))
    axiom('lpcat.end', z3.ForAll([D, N, k, i, s], z3.Implies(s >= k, LPCAT(D, N, k, i, s) == _sym.pstr_lit('')),
                                 patterns=[LPCAT(D, N, k, i, s)]), 'lpcat', opaque=True)
    axiom('lpcat.step', z3.ForAll([D, N, k, i, s], z3.Implies(
        z3.And(s >= 0, s < k), LPCAT(D, N, k, i, s) == C(LP(COL(D, N[s])[i]), LPCAT(D, N, k, i, s + 1))),
        patterns=[LPCAT(D, N, k, i, s)]), 'lpcat', opaque=True)

    def agree(lo):
        return z3.ForAll([c], z3.Implies(z3.And(c >= lo, c < k), COL(D, N[c])[i] == COL(D, N[c])[j]))

    def P_(dv):
        return z3.ForAll([D, N, k, i, j, s], z3.Implies(z3.And(s >= 0, k - s == dv),
                                                        (LPCAT(D, N, k, i, s) == LPCAT(D, N, k, j, s)) == agree(s)))
    lemma('lpcat_faithful',
          z3.ForAll([D, N, k, i, j], z3.Implies(k >= 0, (LPCAT(D, N, k, i, 0) == LPCAT(D, N, k, j, 0)) == agree(0)),
                    patterns=[z3.MultiPattern(LPCAT(D, N, k, i, 0), LPCAT(D, N, k, j, 0))]),
          _induction(P_, dd), uses=['lp_prefix_code'], unfold=['lpcat'])
    _c10_syms.d = dict(d, COL=COL, LPCAT=LPCAT)
    return _c10_syms.d


@spec('lpcat')
def sp_lpcat(I, st, args, kwargs):
    df, comb, i, s = args
    d = _c10_syms()
    return VStr(d['LPCAT'](df.fields['data'].t, comb.arr, comb.length, i.t, s.t))


@spec('lp')
def sp_lp(I, st, args, kwargs):
    return VStr(_c10_syms()['LP'](args[0].t))


@spec('owned')
def sp_owned(I, st, args, kwargs):
    """owned(s): the Series object bound to s was created by this function and has no other holder (in-place updates are private)."""
    return VBool(getattr(args[0], 'owned', z3.BoolVal(False)))


@spec('xxh64hex')
def sp_xxh64hex(I, st, args, kwargs):
    return VStr(_c10_syms()['XXH'](args[0].t))


@spec('faithful_col')
def sp_faithful_col(I, st, args, kwargs):
    """faithful_col(col, df, comb): two rows of `col` are equal exactly when the rows of frame df agree on every column named in comb
    (a hidden definition: obligations that need its meaning `unfold` it; invariants only carry it along)."""
    from . import sym as _sym
    from .sym import sort_of
    col, df, comb = args
    d = _c10_syms()
    if 'FAITH' not in d:
        P = _sym.PSTR
        AP = z3.ArraySort(z3.IntSort(), P)
        FD = sort_of(('opaque', 'FrameData'))
        F = z3.Function('faithful_col', AP, I_, FD, AP, I_, z3.BoolSort())
        A, N, D = z3.Const('fc_A', AP), z3.Const('fc_N', AP), z3.Const('fc_D', FD)
        n, k, i, j, c = (z3.Int('fc_' + x) for x in 'nkijc')
        COL = d['COL']
        body = z3.ForAll([i, j], z3.Implies(z3.And(i >= 0, i < n, j >= 0, j < n), (A[i] == A[j]) == z3.ForAll(
            [c], z3.Implies(z3.And(c >= 0, c < k), COL(D, N[c])[i] == COL(D, N[c])[j]))))
        axiom('faithful_col.def', z3.ForAll([A, n, D, N, k], F(A, n, D, N, k) == body, patterns=[F(A, n, D, N, k)]), 'faithful_col', opaque=True)
        d['FAITH'] = F
    if isinstance(col, VSeq):
        arr = col.arr
    else:
        arr = col.fields['values'].arr
    return VBool(d['FAITH'](arr, df.fields['nrows'].t, df.fields['data'].t, comb.arr, comb.length))


# ----------------------------------------------------------------------------- sub-sampling quota (C04): hidden non-linear definitions
_sq_r, _sq_n, _sq_k = z3.Real('sq_r'), z3.Int('sq_n'), z3.Int('sq_k')


def _trunc(x):
    return z3.If(x >= 0, z3.ToInt(x), -z3.ToInt(-x))


SPACE_OF = z3.Function('space_of', R_, I_, I_)           # int(r * n)
QUOTA_OF = z3.Function('quota_of', R_, I_, I_, I_)       # int(int(r * n) / k)
axiom('space_of.def', z3.ForAll([_sq_r, _sq_n], SPACE_OF(_sq_r, _sq_n) == _trunc(_sq_r * z3.ToReal(_sq_n)),
                                patterns=[SPACE_OF(_sq_r, _sq_n)]), 'space_of', opaque=True)
axiom('quota_of.def', z3.ForAll([_sq_r, _sq_n, _sq_k], QUOTA_OF(_sq_r, _sq_n, _sq_k) == _trunc(
    z3.ToReal(SPACE_OF(_sq_r, _sq_n)) / z3.ToReal(_sq_k)), patterns=[QUOTA_OF(_sq_r, _sq_n, _sq_k)]), 'quota_of', opaque=True)


@spec('space_of')
def sp_space_of(I, st, args, kwargs):
    return VInt(SPACE_OF(to_term(args[0], 'real'), to_term(args[1], 'int')))


@spec('quota_of')
def sp_quota_of(I, st, args, kwargs):
    return VInt(QUOTA_OF(to_term(args[0], 'real'), to_term(args[1], 'int'), to_term(args[2], 'int')))


@spec('is_integer')
def sp_is_integer(I, st, args, kwargs):
    """is_integer(x): the real x has no fractional part (a float cell that holds an integer index)."""
    v = args[0]
    if isinstance(v, VInt):
        return VBool(z3.BoolVal(True))
    return VBool(z3.IsInt(to_term(v, 'real')))


# ----------------------------------------------------------------------------- weighted occurrence sums (C15 batch updates): linear recursions
_WCNT: dict = {}


def wcnt_fn(ek):
    """wcnt(A, v, d, m) = sum over i < m of (d if A[i] == v else 0);  wtot(d, m) = d * m written as a linear recursion."""
    from .sym import sort_of, kind_name
    if ek in _WCNT:
        return _WCNT[ek]
    es = sort_of(ek)
    nm = 'wcnt_' + kind_name(ek)
    arr = z3.ArraySort(I_, es)
    F = z3.Function(nm, arr, es, I_, I_, I_)
    A = z3.Const('A_' + nm, arr)
    v = z3.Const('v_' + nm, es)
    d = z3.Int('d_' + nm)
    axiom(nm + '.base', z3.ForAll([A, v, d], F(A, v, d, 0) == 0, patterns=[F(A, v, d, 0)]), nm)
    axiom(nm + '.step', z3.ForAll([A, v, d, _m], z3.Implies(_m > 0, F(A, v, d, _m) == F(A, v, d, _m - 1) + z3.If(A[_m - 1] == v, d, 0)),
                                  patterns=[F(A, v, d, _m)]), nm)
    lemma(nm + '_nonneg',
          z3.ForAll([A, v, d, _m], z3.Implies(z3.And(d >= 0, _m >= 0), F(A, v, d, _m) >= 0), patterns=[F(A, v, d, _m)]),
          [(lab, z3.ForAll([A, v, d], z3.Implies(d >= 0, f))) for lab, f in _induction(lambda n: F(A, v, d, n) >= 0, _n)])
    _WCNT[ek] = F
    return F


WTOT = z3.Function('wtot', I_, I_, I_)
_wd = z3.Int('wtot_d')
axiom('wtot.base', z3.ForAll([_wd], WTOT(_wd, 0) == 0, patterns=[WTOT(_wd, 0)]), 'wtot')
axiom('wtot.step', z3.ForAll([_wd, _m], z3.Implies(_m > 0, WTOT(_wd, _m) == WTOT(_wd, _m - 1) + _wd), patterns=[WTOT(_wd, _m)]), 'wtot')


@spec('wcnt')
def sp_wcnt(I, st, args, kwargs):
    a, v, d, m = args
    if a.arr is None:
        return VInt(0)
    return VInt(wcnt_fn(a.ek)(a.arr, to_term(v, a.ek), to_term(d, 'int'), to_term(m, 'int')))


@spec('wtot')
def sp_wtot(I, st, args, kwargs):
    return VInt(WTOT(to_term(args[0], 'int'), to_term(args[1], 'int')))


@spec('mkcounter')
def sp_mkcounter(I, st, args, kwargs):
    """mkcounter(lambda y: <int expr>, "Kind"): the counter whose value at y is the expression (a ghost argument for callee contracts)."""
    import ast as _ast
    from .sym import VDict, parse_kind, sort_of, from_term
    raise EngineError('mkcounter is handled syntactically by the spec evaluator')


_wm = z3.Int('wtot_m')
lemma('wtot_monotone',
      z3.ForAll([_wd, _wm, _m], z3.Implies(z3.And(_wd >= 0, _wm >= 0, _wm <= _m), z3.And(WTOT(_wd, _wm) >= 0, WTOT(_wd, _wm) <= WTOT(_wd, _m))),
                patterns=[z3.MultiPattern(WTOT(_wd, _wm), WTOT(_wd, _m))]),
      [('nonneg.' + lab, z3.ForAll([_wd], z3.Implies(_wd >= 0, f))) for lab, f in _induction(lambda n: WTOT(_wd, n) >= 0, _n)] +
      [('mono.' + lab, z3.ForAll([_wd, _wm], z3.Implies(z3.And(_wd >= 0, _wm >= 0), f))) for lab, f in
       _induction(lambda n: WTOT(_wd, _wm) <= WTOT(_wd, _wm + n), _n)])
