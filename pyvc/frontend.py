"""Front end: read the *real* sources under the repository working tree and select functions.

The repository root is $VERIF_REPO (default /repo).  Nothing is cached between runs.
What is dropped on extraction is recorded per function (decorators, annotations, docstrings).
"""
from __future__ import annotations

import ast
import hashlib
import os

from .sym import EngineError


def repo_root() -> str:
    return os.environ.get('VERIF_REPO', '/repo')


class SourceFunction:
    def __init__(self, module_path, qualname, node, module_ast, source, dropped):
        self.module_path = module_path
        self.qualname = qualname
        self.node = node
        self.module_ast = module_ast
        self.source = source
        self.dropped = dropped

    def text(self) -> str:
        return ast.get_source_segment(self.source, self.node) or ''

    def sha(self) -> str:
        return hashlib.sha256(ast.dump(self.node).encode()).hexdigest()[:16]


_module_cache: dict = {}


def load_module(module_path: str):
    full = os.path.join(repo_root(), module_path)
    key = (full, os.path.getmtime(full))
    if key not in _module_cache:
        with open(full, encoding='utf-8') as fh:
            src = fh.read()
        _module_cache[key] = (ast.parse(src, filename=full), src)
    return _module_cache[key]


def _find(body, name):
    for n in body:
        if isinstance(n, (ast.FunctionDef, ast.ClassDef)) and n.name == name:
            return n
    return None


def _find_nested(fn, name):
    for n in ast.walk(fn):
        if isinstance(n, ast.FunctionDef) and n.name == name and n is not fn:
            return n
    return None


def load_function(module_path: str, qualname: str) -> SourceFunction:
    """qualname: 'f', 'Class.method', 'outer.inner' (nested def anywhere inside outer)."""
    tree, src = load_module(module_path)
    parts = qualname.split('.')
    node = _find(tree.body, parts[0])
    if node is None:
        raise EngineError(f'UNBOUND: {module_path}:{qualname} not found')
    for p in parts[1:]:
        if isinstance(node, ast.ClassDef):
            nxt = _find(node.body, p)
        else:
            nxt = _find_nested(node, p)
        if nxt is None:
            raise EngineError(f'UNBOUND: {module_path}:{qualname} not found')
        node = nxt
    if not isinstance(node, ast.FunctionDef):
        raise EngineError(f'UNBOUND: {module_path}:{qualname} is not a function')
    dropped = []
    for d in node.decorator_list:
        dropped.append('decorator ' + (ast.get_source_segment(src, d) or '').replace('\n', ' ')[:160])
    if node.body and isinstance(node.body[0], ast.Expr) and isinstance(node.body[0].value, ast.Constant) \
            and isinstance(node.body[0].value.value, str):
        dropped.append('docstring')
    if node.returns is not None or any(a.annotation is not None for a in node.args.args):
        dropped.append('type annotations')
    return SourceFunction(module_path, qualname, node, tree, src, dropped)


def numba_signature(fn: SourceFunction):
    """First positional string of an @njit(...) decorator, e.g. 'float32(int32[:], int32[:], float32, b1)'."""
    for d in fn.node.decorator_list:
        if isinstance(d, ast.Call) and getattr(d.func, 'id', getattr(d.func, 'attr', '')) == 'njit':
            if d.args and isinstance(d.args[0], ast.Constant) and isinstance(d.args[0].value, str):
                opts = {k.arg: ast.literal_eval(k.value) for k in d.keywords
                        if isinstance(k.value, ast.Constant)}
                return d.args[0].value, opts
            return None, {k.arg: ast.literal_eval(k.value) for k in d.keywords if isinstance(k.value, ast.Constant)}
    return None, {}


def loops_of(fn_node):
    """Loops of a function in source order (pre-order), excluding loops of nested defs. Ordinals are 1-based."""
    out = []

    def walk(n):
        for c in ast.iter_child_nodes(n):
            if isinstance(c, (ast.FunctionDef, ast.Lambda, ast.ClassDef)):
                continue
            if isinstance(c, (ast.For, ast.While)):
                out.append(c)
            walk(c)

    walk(fn_node)
    return out


def module_level_assignments(module_path: str):
    """name -> ast value node for simple module-level assignments (used for constants such as max_size)."""
    tree, _ = load_module(module_path)
    out = {}
    for n in tree.body:
        if isinstance(n, ast.Assign) and len(n.targets) == 1 and isinstance(n.targets[0], ast.Name):
            out[n.targets[0].id] = n.value
        elif isinstance(n, ast.AnnAssign) and isinstance(n.target, ast.Name) and n.value is not None:
            out[n.target.id] = n.value
    return out
