"""C19 native: synthetic categorical data respects its declared shape, domains and seed (real generators)."""
import sys

import numpy as np

import common
from common import Harness


def main():
    h = Harness('C19')
    from outrank.algorithms.synthetic_data_generators.cc_generator import CategoricalClassification as CC
    from outrank.algorithms.synthetic_data_generators import generator_naive as GN
    rng = np.random.default_rng(1900 + h.seed)
    quick = h.tier == 'quick'
    # ---- _generate_feature: domains and ensure_rep (executable twin of the contract)
    for case in range(300 if quick else 4000):
        size = int(rng.integers(0, 30))
        mode = int(rng.integers(0, 3))
        ensure = bool(rng.integers(0, 2))
        g = CC(seed=int(rng.integers(0, 10 ** 6)))
        low = int(rng.integers(-5, 6))
        if mode == 0:
            card = int(rng.integers(1, 12))
            kw = dict(cardinality=card, low=low)
            dom = set(range(low, low + card))
        elif mode == 1:
            card = int(rng.integers(1, 8))
            high = low + card - 1 + int(rng.choice([0, 0, 1, 3, 9]))      # saturated bounds half of the time
            kw = dict(cardinality=card, low=low, high=high, random_values=True)
            dom = set(range(low, high + 1))
        else:
            vec = sorted(set(int(x) for x in rng.integers(-50, 50, int(rng.integers(1, 9)))))
            kw = dict(vec=vec)
            if rng.random() < 0.4:
                w = rng.random(len(vec)) + 0.05
                kw['p'] = list(w / w.sum())
            dom = set(vec)
        wit = dict(kw, size=size, ensure_rep=ensure)
        x = g._generate_feature(size, ensure_rep=ensure, **kw)
        h.record(('gf', case), size > 0, sample=wit)
        if len(x) != size or str(x.dtype) != 'int32':
            h.fail('_generate_feature.ensures.one_value_per_sample', wit, f'len {len(x)} dtype {x.dtype}')
        if not set(x.tolist()) <= dom:
            h.fail('_generate_feature.ensures.domain', wit, f'values {sorted(set(x.tolist()) - dom)} outside the declared domain',
                   obligations=['cc_generator.CategoricalClassification._generate_feature/ensures.default_domain'])
        if mode == 1 and len(set(x.tolist())) > kw['cardinality']:
            h.fail('_generate_feature.random_draw_cardinality', wit, f'{len(set(x.tolist()))} distinct values')
        if mode == 1 and ensure and kw['cardinality'] <= size and len(set(x.tolist())) != kw['cardinality']:
            # the random domain is a draw of `cardinality` DISTINCT values within the bounds; with representation enforced all occur
            h.fail('_generate_feature.random_draw_has_the_requested_cardinality', wit,
                   f'{len(set(x.tolist()))} distinct values, requested cardinality {kw["cardinality"]} with ensure_rep')
        if ensure and mode != 1 and len(dom) <= size and set(x.tolist()) != dom:
            h.fail('_generate_feature.ensures.every_value_represented', wit, f'missing {sorted(dom - set(x.tolist()))}',
                   obligations=['cc_generator.CategoricalClassification._generate_feature/ensures.every_default_value_represented'])
    # ---- generate_data: shape, dtype, positions and per-column domains, reproducibility
    for case in range(120 if quick else 1500):
        nf = int(rng.integers(1, 10))
        ns = int(rng.integers(1, 40))
        card = int(rng.integers(2, 7))
        seed = int(rng.choice([0, 1, 2 ** 32 - 1])) if case % 7 == 3 else int(rng.integers(0, 10 ** 6))       # boundary seeds (0 is a seed like any other)
        structure = None
        declared = {}
        if rng.random() < 0.75:
            structure = []
            free = list(range(nf))
            pos = 0
            while pos < nf and rng.random() < 0.8:
                kind = int(rng.integers(0, 4))
                if kind == 3 and pos + 1 < nf:
                    idxs = sorted(int(x) for x in rng.choice(range(pos, nf), size=min(int(rng.integers(1, 4)), nf - pos), replace=False))
                    attr_kind = int(rng.integers(0, 2))
                    if attr_kind == 0:
                        c2 = int(rng.integers(2, 9))
                        structure.append((idxs, c2))
                        for i in idxs:
                            declared[i] = set(range(0, c2))
                    else:
                        vec = sorted(set(int(x) for x in rng.integers(100, 200, 4)))
                        structure.append((idxs, vec))
                        for i in idxs:
                            declared[i] = set(vec)
                    pos = idxs[-1] + 1
                else:
                    ix = int(rng.integers(pos, nf))
                    if kind == 0:
                        c2 = int(rng.integers(2, 9))
                        structure.append((ix, c2))
                        declared[ix] = set(range(0, c2))
                    elif kind == 1:
                        vec = sorted(set(int(x) for x in rng.integers(100, 200, 4)))
                        structure.append((ix, vec))
                        declared[ix] = set(vec)
                    else:
                        vec = sorted(set(int(x) for x in rng.integers(300, 400, 3)))
                        w = rng.random(len(vec)) + 0.1
                        structure.append((ix, [vec, list(w / w.sum())]))
                        declared[ix] = set(vec)
                    pos = ix + 1
        ensure = bool(rng.integers(0, 2))
        wit = {'n_features': nf, 'n_samples': ns, 'cardinality': card, 'structure': structure, 'ensure_rep': ensure, 'seed': seed}
        # a non-default lower bound of the default domain: undeclared (gap) columns take {low, ..., low + cardinality - 1}
        low_ = int(rng.choice([0, 0, 100, -7]))
        try:
            Xl = CC().generate_data(nf, ns, cardinality=card, structure=structure, ensure_rep=ensure, seed=seed, low=low_)
            for col_ in range(nf):
                if col_ not in declared and not set(Xl[:, col_].tolist()) <= set(range(low_, low_ + card)):
                    h.fail('generate_data.default_domain_of_undeclared_columns', dict(wit, low=low_, column=col_),
                           f'values {sorted(set(Xl[:, col_].tolist()))[:8]} outside [{low_}, {low_ + card - 1}]')
                    break
        except Exception as e_:
            h.fail('generate_data.no_raise', dict(wit, low=low_), f'{type(e_).__name__}: {e_}')
        try:
            X = CC().generate_data(nf, ns, cardinality=card, structure=structure, ensure_rep=ensure, seed=seed)
            X2 = CC().generate_data(nf, ns, cardinality=card, structure=structure, ensure_rep=ensure, seed=seed)
        except Exception as e:
            h.record(('gd', case), True)
            h.fail('generate_data.no_raise', wit, f'{type(e).__name__}: {e}')
            continue
        h.record(('gd', case), structure is not None and len(structure) > 0, sample=wit)
        if X.shape != (ns, nf) or str(X.dtype) != 'int32':
            h.fail('generate_data.shape_and_type', wit, f'shape {X.shape} dtype {X.dtype}')
            continue
        # the same seed reproduces the data set whatever happened to the global stream before: second call on one object,
        # two objects built before either is used, draws consumed in between
        gA, gB = CC(seed=seed), CC(seed=seed)
        XA1 = gA.generate_data(nf, ns, cardinality=card, structure=structure, ensure_rep=ensure, seed=seed)
        np.random.random(7)
        XB = gB.generate_data(nf, ns, cardinality=card, structure=structure, ensure_rep=ensure, seed=seed)
        XA2 = gA.generate_data(nf, ns, cardinality=card, structure=structure, ensure_rep=ensure, seed=seed)
        # ... also with random value domains (drawn within the bounds on every call)
        gR = CC(seed=seed)
        kwR = dict(cardinality=card, ensure_rep=ensure, seed=seed, random_values=True, low=0, high=card + 20)
        try:
            XR1 = gR.generate_data(nf, ns, **kwR)
            XR2 = gR.generate_data(nf, ns, **kwR)
            XR3 = CC(seed=seed).generate_data(nf, ns, **kwR)
            if not (np.array_equal(XR1, XR2) and np.array_equal(XR1, XR3)):
                h.fail('generate_data.same_seed_same_data', dict(wit, scenario='random_values=True, second call on the same object'),
                       'the same seed and arguments gave a different data set')
        except TypeError:
            pass
        if not (np.array_equal(XA1, X) and np.array_equal(XB, X) and np.array_equal(XA2, X)):
            h.fail('generate_data.same_seed_same_data', dict(wit, scenario='second call on the same object / object built earlier / draws in between'),
                   'the same seed and arguments gave a different data set')
        if not np.array_equal(X, X2):
            h.fail('generate_data.same_seed_same_data', wit, 'two runs with the same seed differ')
        for col in range(nf):
            dom = declared.get(col, set(range(0, card)))
            vals = set(X[:, col].tolist())
            if not vals <= dom:
                h.fail('generate_data.declared_feature_at_declared_position', dict(wit, column=col),
                       f'column {col} takes {sorted(vals - dom)[:5]} outside its declared domain {sorted(dom)[:8]}')
                break
            if ensure and len(dom) <= ns and vals != dom:
                h.fail('generate_data.ensure_rep', dict(wit, column=col), f'column {col} misses {sorted(dom - vals)}')
                break
    # ---- naive generator: label is a deterministic function of the needle column alone
    for case in range(10 if quick else 100):
        nfeat = int(rng.integers(31, 60))
        size = int(rng.integers(5, 200))
        np.random.seed(int(rng.integers(0, 10 ** 6)))
        sample, target = GN.generate_random_matrix(nfeat, size)
        h.record(('naive', case), True)
        if sample.shape != (size, nfeat) or len(target) != size:
            h.fail('generate_random_matrix.shape', {'num_features': nfeat, 'size': size}, f'{sample.shape}')
        f = {}
        for a, b in zip(sample[:, 30].tolist(), target.tolist()):
            if f.setdefault(a, b) != b:
                h.fail('generate_random_matrix.label_function_of_needle', {'num_features': nfeat, 'size': size}, 'label not a function of column 30')
                break
        if not set(target.tolist()) <= {0, 1}:
            h.fail('generate_random_matrix.binary_label', {'num_features': nfeat, 'size': size}, sorted(set(target.tolist())))
    h.bounded_note('domains / ensure_rep / positions / reproducibility of the real generators', 'random arguments and structure '
                   'descriptions mixing single indices, index lists, cardinalities, value lists and value/frequency pairs', h.evaluations)
    return h.finish()


if __name__ == '__main__':
    sys.exit(common.run_main(main))
