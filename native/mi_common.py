"""Native twins of the entropy / stratum spec functions (pyvc/speclib.py) and an independent plug-in MI reference."""
from __future__ import annotations

import math

import numpy as np

from common import NATIVE, cnt, g


def wg(w, p):
    return 0.0 if p == 0 else -((w * p) * math.log(p))


def went(w, C, d, k):
    return sum(wg(w, C[t] / d) for t in range(k))


def where_idx(X, f):
    return [i for i in range(len(X)) if X[i] == f]


def cntg(Y, W, c, K):
    return sum(1 for k in range(K) if Y[W[k]] == c)


def cntgs(Y, W, s, n, c, K):
    return sum(1 for k in range(K) if Y[(W[k] + s) % n] == c)


def row(Y, W, cv):
    return [cntg(Y, W, cv[t], len(W)) for t in range(len(cv))]


def rows(Y, W, s, cv):
    return [cntgs(Y, W, s, len(Y), cv[t], len(W)) for t in range(len(cv))]


def _sum(X, Y, fv, fc, na, cv, j, bg, skip):
    tot = 0.0
    for i in range(j):
        if skip and fc[i] == 1:
            continue
        W = where_idx(X, fv[i])
        r = rows(Y, W, int(fc[i]), cv) if bg else row(Y, W, cv)
        tot += went(fc[i] / na, r, fc[i], len(cv))
    return tot


def condsum(X, Y, fv, fc, na, cv, j):
    return _sum(X, Y, fv, fc, na, cv, j, False, True)


def condsum_bg(X, Y, fv, fc, na, cv, j):
    return _sum(X, Y, fv, fc, na, cv, j, True, True)


def condsum_ns(X, Y, fv, fc, na, cv, j):
    return _sum(X, Y, fv, fc, na, cv, j, False, False)


def condsum_bg_ns(X, Y, fv, fc, na, cv, j):
    return _sum(X, Y, fv, fc, na, cv, j, True, False)


def min2(a, b):
    return a if a < b else b


def offs(X, fv, q, j):
    return sum(min2(q, len(where_idx(X, fv[i]))) for i in range(j))


def support(A):
    vals = sorted(set(int(a) for a in A))
    return np.array(vals, dtype=np.int32), np.array([cnt(A, v, len(A)) for v in vals], dtype=np.int32)


def sample_spec(Y, X, r, fv):
    """The statement's sample: for each distinct target value the first floor(floor(r*n)/#values) rows (all rows if 0)."""
    n = len(X)
    s = int(float(np.float32(r)) * n)      # the product is taken in double precision (float32 ratio x integer length)
    q = int(s / len(fv))
    if q == 0:
        return np.array(Y), np.array(X), q
    idx = []
    for f in fv:
        idx.extend(where_idx(X, f)[:q])
    idx = np.array(idx, dtype=np.int64)
    return Y[idx], X[idx], q


def plugin_mi_reference(Y, X):
    """Independent double-sum form  sum p(x,y) log(p(x,y) / (p(x) p(y)))  in nats (float64)."""
    n = len(X)
    joint = {}
    px, py = {}, {}
    for a, b in zip(X.tolist(), Y.tolist()):
        joint[(a, b)] = joint.get((a, b), 0) + 1
        px[a] = px.get(a, 0) + 1
        py[b] = py.get(b, 0) + 1
    return sum((c / n) * math.log((c / n) / ((px[a] / n) * (py[b] / n))) for (a, b), c in joint.items())


def entropy_reference(Y):
    n = len(Y)
    _, c = np.unique(Y, return_counts=True)
    return float(sum(g(x / n) for x in c))


def space_of(r, n):
    return int(r * n)


def quota_of(r, n, k):
    return int(int(r * n) / k)


NATIVE.update(dict(space_of=space_of, quota_of=quota_of, wg=wg, went=went, where_idx=where_idx, cntg=cntg, cntgs=cntgs, row=row, rows=rows,
                   condsum=condsum, condsum_bg=condsum_bg, condsum_ns=condsum_ns, condsum_bg_ns=condsum_bg_ns,
                   min2=min2, offs=offs))


def entsum_spec(C, d, k):
    return sum(g(C[t] / d) for t in range(k))
