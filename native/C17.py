"""C17 native: 3MR ranking is a greedy-optimal permutation (real rank_features_3MR)."""
import sys

import numpy as np

import common
from common import Harness


def main():
    h = Harness('C17')
    from outrank.algorithms.importance_estimator import rank_features_3MR
    rng = np.random.default_rng(1700 + h.seed)
    quick = h.tier == 'quick'
    agg = {'median': np.median, 'mean': np.mean, 'sum': sum}
    for case in range(300 if quick else 4000):
        n = int(rng.integers(1, 12 if quick else 31))
        feats = [f'f{i}' for i in range(n)]
        scale = float(rng.choice([1.0, 0.0, 5.0]))
        ties = rng.random() < 0.3
        def val():
            v = float(rng.integers(-3, 4)) if ties else float(rng.normal())
            return v * scale
        rel = {f: val() for f in feats}
        dens = float(rng.choice([0.0, 0.3, 1.0]))
        red = {(a, b): val() for a in feats for b in feats if a != b and rng.random() < dens}
        rela = {(a, b): val() for a in feats for b in feats if a != b and rng.random() < dens}
        strategy = str(rng.choice(['median', 'mean', 'sum']))
        alpha, beta = float(rng.choice([0.0, 1.0, 0.5, 2.0])), float(rng.choice([0.0, 1.0, 3.0]))
        wit = {'relevance': rel, 'redundancy': {f'{a}|{b}': v for (a, b), v in red.items()},
               'relation': {f'{a}|{b}': v for (a, b), v in rela.items()}, 'strategy': strategy, 'alpha': alpha, 'beta': beta}
        try:
            df = rank_features_3MR(rel, red, rela, strategy, alpha, beta)
        except Exception as e:
            h.record(('c17', case), True)
            h.fail('rank_features_3MR.no_raise', wit, f'{type(e).__name__}: {e}')
            continue
        order = list(df['Feature'])
        h.record(('c17', case), n > 2, sample=wit if n <= 4 else None)
        if sorted(order, key=str) != sorted(feats, key=str) or len(set(order)) != n:
            h.fail('rank_features_3MR.ensures.every_feature_once', wit, f'order {order}',
                   obligations=['importance_estimator.rank_features_3MR/ensures.every_feature_once'])
            continue
        if list(df['3MR_Ranking']) != list(range(1, n + 1)):
            h.fail('rank_features_3MR.ensures.ranks_1_to_n', wit, list(df['3MR_Ranking']))
        if rel[order[0]] < max(rel.values()):
            h.fail('rank_features_3MR.ensures.starts_with_max_relevance', wit, f'first {order[0]}')
        for t in range(1, n):
            ranked = order[:t]
            def imp(f):
                r1 = agg[strategy]([red.get((r, f), 0) for r in ranked])
                r2 = agg[strategy]([rela.get((r, f), 0) for r in ranked])
                return rel[f] - alpha * r1 + beta * r2
            best = max(imp(f) for f in feats if f not in ranked)
            if imp(order[t]) < best - 1e-12:
                h.fail('rank_features_3MR.ensures.greedy_optimal', dict(wit, position=t, order=order),
                       f'placed {order[t]} with importance {imp(order[t])}, a remaining feature has {best}',
                       obligations=['importance_estimator.rank_features_3MR/ensures.greedy_optimal'])
                break
    h.bounded_note('permutation / max-relevance start / greedy optimality at every position on the real function', 'random '
                   'dense and sparse dictionaries over 1..30 features, ties, negatives, three strategies', h.evaluations)
    return h.finish()


if __name__ == '__main__':
    sys.exit(common.run_main(main))
