"""C16 native: line parsers keep every field in its column (real parsers) + cross-check of the string laws used as axioms."""
import csv
import io
import os
import sys
import tempfile
from types import SimpleNamespace

import numpy as np

import common
from common import Harness


def main():
    h = Harness('C16')
    from outrank import core_utils as CU
    rng = np.random.default_rng(1600 + h.seed)
    quick = h.tier == 'quick'
    atoms = ['', 'a', 'b c', ' lead', 'trail ', 'é', '0', 'x,y', 'q"uote', "it's", '{}', 'a|b', 'k_1', '-', ' ',
             # characters str.splitlines() treats as line boundaries although a text file read line by line does not
             'page\x0cbreak', 'v\x0bt', 'fs\x1cgs\x1d', 'next\x85line', 'ls\u2028ps\u2029']
    n_rows = 300 if quick else 5000
    # ---- string laws assumed by the deductive side (str.split/join, rstrip) on real python strings
    for _ in range(n_rows):
        k = int(rng.integers(1, 7))
        fields = [str(rng.choice(atoms)) for _ in range(k)]
        for sep in ('\t', ','):
            if any(sep in f for f in fields):
                continue
            j = sep.join(fields)
            h.record(('law', sep, tuple(fields)), True)
            if j.split(sep) != fields:
                h.fail('law.split_join', {'fields': fields, 'sep': sep}, 'split(join(F)) != F')
            for term in ('\n', '\r\n', ''):
                if (j + term).rstrip('\r\n') != j:
                    h.fail('law.rstrip', {'fields': fields, 'term': term}, 'rstrip law fails')
    # ---- TSV: every field list without tab / line break, empty cells anywhere
    for _ in range(n_rows):
        k = int(rng.integers(1, 8))
        fields = [str(rng.choice(atoms)) for _ in range(k)]
        if rng.random() < 0.3:
            fields[0] = ''
        if rng.random() < 0.3:
            fields[-1] = ''
        term = str(rng.choice(['\n', '\r\n', '']))
        line = '\t'.join(fields) + term
        for src in ('direct', 'dispatch'):
            got = CU.parse_ob_line(line, '\t') if src == 'direct' else CU.generic_line_parser(
                line, '\t', SimpleNamespace(data_source='ob-raw-dump'), None, None)
            h.record(('tsv', src, line), '' in fields, sample={'line': line})
            if got != fields:
                h.fail('parse_ob_line.ensures.exactly_the_fields_in_order', {'line': line, 'fields': fields, 'via': src},
                       f'parsed {got}', obligations=['core_utils.parse_ob_line/ensures.exactly_the_fields_in_order'])
    # ---- CSV (ob-csv, csv-raw): fields with delimiters and quotes, rendered by the csv module
    for _ in range(n_rows):
        k = int(rng.integers(1, 8))
        fields = [str(rng.choice(atoms)) for _ in range(k)]
        buf = io.StringIO()
        csv.writer(buf, lineterminator='\n').writerow(fields)
        line = buf.getvalue()
        if k == 1 and fields[0] == '':
            continue   # a single empty field renders as '""': still one field
        for ds in ('ob-csv', 'csv-raw'):
            got = CU.generic_line_parser(line, ',', SimpleNamespace(data_source=ds), None, None)
            h.record(('csv', ds, line), any(',' in f or '"' in f for f in fields), sample={'line': line})
            if got != fields:
                h.fail('parse_ob_csv_line.ensures.first_record_of_the_csv_reader_unmodified', {'line': line, 'fields': fields, 'data_source': ds},
                       f'parsed {got}', obligations=['core_utils.parse_ob_csv_line/ensures.first_record_of_the_csv_reader_unmodified'])
    # ---- dispatch: unknown source is rejected
    try:
        CU.generic_line_parser('a,b\n', ',', SimpleNamespace(data_source='parquet'), None, None)
        h.fail('generic_line_parser.raises.only_for_unknown_sources', {'data_source': 'parquet'}, 'no exception for an unsupported source')
    except NotImplementedError:
        pass
    h.record(('dispatch', 'unknown'), True)
    # ---- VW: namespace -> column, tokens joined by '-', two-character prefix of the value removed, absent -> None
    ns_ids = ['a', 'b', 'c', 'd', 'e']
    for _ in range(n_rows):
        used = [x for x in ns_ids if rng.random() < 0.6]
        rng.shuffle(used)
        fw = {x: f'feat_{x}' for x in ns_ids}
        # the header differs from call to call (column order, extra columns): every line is laid out by ITS header
        order_ = list(rng.permutation(ns_ids))
        header = ['label'] + [fw[x] for x in order_] + (['extra_col'] if rng.random() < 0.3 else [])
        toks = {}
        parts = []
        for x in used:
            n_tok = int(rng.integers(0, 4))
            toks[x] = [f'{x}_{str(rng.choice(["v", "w1", "é", "10", "New\u00a0York", "a\u2003b", "x\ty", "p\u3000q", "m\x1fn"]))}' for _ in range(n_tok)]
            parts.append(' '.join([x] + toks[x]) + (' ' if rng.random() < 0.3 else ''))
        label = str(rng.choice(['1', '-1', '0']))
        line = label + (' ' + str(rng.choice(['0.5', "'tag"])) if rng.random() < 0.3 else '') + ' |' + '|'.join(parts) + '\n'
        got = CU.generic_line_parser(line, None, SimpleNamespace(data_source='ob-vw'), fw, header)
        exp = [label] + [('-'.join(toks[x])[2:] if x in toks else None) for x in order_] + ([None] if len(header) > len(order_) + 1 else [])
        h.record(('vw', line), len(used) > 1, sample={'line': line})
        if len(used) == 0:
            continue
        if got != exp:
            h.fail('parse_ob_line_vw.namespace_values_in_their_columns', {'line': line, 'header': header}, f'parsed {got}, expected {exp}')
    # ---- VW: one header list object that the caller changes in place between two data sets (column appended, two columns swapped)
    hdr = ['label', 'feat_a', 'feat_b']
    fw2 = {'a': 'feat_a', 'b': 'feat_b', 'c': 'feat_c'}
    for stage in range(3):
        line = '1 |a a_v1 a_v2 |b b_w |c c_z\n'
        vals = {'feat_a': 'v1-a_v2', 'feat_b': 'w', 'feat_c': 'z'}
        got = CU.generic_line_parser(line, None, SimpleNamespace(data_source='ob-vw'), fw2, hdr)
        exp = ['1'] + [vals.get(c) for c in hdr[1:]]
        h.record(('vw-inplace', stage), True, sample={'line': line, 'header': list(hdr)})
        if got != exp:
            h.fail('parse_ob_line_vw.namespace_values_in_their_columns', {'line': line, 'header': list(hdr), 'note': 'same header list object, changed in place since the previous call'},
                   f'parsed {got}, expected {exp}')
        if stage == 0:
            hdr.append('feat_c')
        else:
            hdr[1], hdr[2] = hdr[2], hdr[1]
    # ---- namespace map
    for _ in range(40 if quick else 400):
        rows = []
        exp_map, exp_float = {}, set()
        for i in range(int(rng.integers(1, 8))):
            fid = f'{chr(97 + i)}'
            feat = str(rng.choice([f'feature{i}', f'user_id{i}', f'f_{i}_x']))       # feature names may contain underscores
            typ = str(rng.choice(['', 'f32', 'generic', 'i64']))
            rows.append(f'{fid},{feat}' + (f',{typ}' if typ else ''))
            exp_map[fid] = feat
            if typ == 'f32':
                exp_float.add(feat)
        with tempfile.NamedTemporaryFile('w', suffix='.csv', delete=False) as fh:
            fh.write('\n'.join(rows) + '\n')
            path = fh.name
        fs, mp = CU.parse_namespace(path)
        os.unlink(path)
        h.record(('ns', tuple(rows)), True, sample={'namespace_map': rows})
        if mp != exp_map or fs != exp_float:
            h.fail('parse_namespace.declared_mapping', {'lines': rows}, f'map {mp} floats {fs}')
    # two-column declarations whose id contains an underscore (known finding: silently skipped)
    for rows, exp_map in ((['a,feat1', 'b_c,feat2', 'd,feat3,f32'], {'a': 'feat1', 'b_c': 'feat2', 'd': 'feat3'}),):
        with tempfile.NamedTemporaryFile('w', suffix='.csv', delete=False) as fh:
            fh.write('\n'.join(rows) + '\n')
            path = fh.name
        fs, mp = CU.parse_namespace(path)
        os.unlink(path)
        h.record(('ns_us', tuple(rows)), True)
        if mp != exp_map:
            missing = sorted(set(exp_map) - set(mp))
            h.fail('parse_namespace.declared_mapping', {'lines': rows}, f'declared ids missing from the map: {missing}',
                   witness_class='namespace_two_column_underscore_id' if all('_' in m for m in missing) and set(mp) <= set(exp_map) and all(mp[k] == exp_map[k] for k in mp) else None)
    # ---- the field-count rule of the streaming loop: rows with a wrong number of fields are skipped and counted, never repaired
    import outrank.core_ranking as CR
    from rank_common import InlinePool
    seen_rows, infos = [], []
    real_batch = CR.compute_batch_ranking

    def rec(line_tmp_storage, numeric_column_types, args, cpu_pool, column_descriptions, logger, pbar):
        seen_rows.extend([list(r) for r in line_tmp_storage])
        return CR.BatchRankingSummary([('f1', 'label', 1.0)], {}), {}, {c: 100.0 for c in column_descriptions}, {c: 1.0 for c in column_descriptions}
    CR.compute_batch_ranking = rec
    try:
        for data_source, delim in (('csv-raw', ','), ('ob-raw-dump', '\t')):
            good = [['a%d' % i, 'b%d' % (i % 3), str(i % 2)] for i in range(6)]
            bad = [['x', 'y'], ['x', 'y', 'z', 'w'], ['x', 'y', 'z', ''], ['', 'x', 'y', 'z'], ['x', 'y', '', 'z', '']]
            order = [good[0], bad[2], good[1], bad[0], good[2], bad[3], good[3], bad[1], good[4], bad[4], good[5]]
            with tempfile.TemporaryDirectory(dir=os.getcwd()) as d:
                path = os.path.join(d, 'data.csv')
                with open(path, 'w') as fh:
                    fh.write(delim.join(['f1', 'f2', 'label']) + '\n' + ''.join(delim.join(r) + '\n' for r in order))
                del seen_rows[:], infos[:]
                logger = SimpleNamespace(info=lambda m, *a, **k: infos.append(str(m)), warning=lambda *a, **k: None)
                args = SimpleNamespace(subsampling=1, minibatch_size=2, heuristic='MI-numba-randomized', data_source=data_source, disable_tqdm='True')
                CR.estimate_importances_minibatches(path, ['f1', 'f2', 'label'], None, set(), args=args, cpu_pool=InlinePool(), delimiter=delim, logger=logger)
            h.record(('fieldcount', data_source), True)
            if seen_rows != good:
                h.fail('streaming_loop.rows_with_a_wrong_field_count_are_skipped', {'data_source': data_source, 'lines': [delim.join(r) for r in order]},
                       f'rows handed to the ranking step: {seen_rows}')
    finally:
        CR.compute_batch_ranking = real_batch
        if os.path.exists('ranking_checkpoint_tmp.tsv'):
            os.unlink('ranking_checkpoint_tmp.tsv')
    h.bounded_note('TSV / CSV / VW round trips through the real parsers and the dispatcher; namespace maps; the str laws used as axioms',
                   f'{n_rows} random rows per format (empty cells first/last/everywhere, delimiters and quotes inside cells, unicode)', h.evaluations)
    return h.finish()


if __name__ == '__main__':
    sys.exit(common.run_main(main))
