"""C11 native (bounded stand-in): every feature-construction step of the real code only appends row-aligned columns that follow their rule."""
import itertools
import sys
from types import SimpleNamespace

import numpy as np
import pandas as pd

import common
from common import Harness
from rank_common import Pbar

LOG = SimpleNamespace(info=lambda *a, **k: None, warning=lambda *a, **k: None)


def appended_only(h, clause, before, snapshot, after, wit):
    """originals (names, values, row order) kept; input object not modified; every new column has one value per row."""
    n0 = len(snapshot.columns)
    ok = list(after.columns[:n0]) == list(snapshot.columns) and len(after) == len(snapshot) \
        and after.iloc[:, :n0].reset_index(drop=True).astype(str).equals(snapshot.astype(str)) and before.equals(snapshot) \
        and list(after.index) == list(range(len(snapshot)))
    if not ok:
        h.fail(clause + '.only_appends_columns', wit, f'columns before {list(snapshot.columns)} after {list(after.columns)}; rows {len(snapshot)} -> {len(after)}')
    if after.isna().any().any() and not snapshot.isna().any().any():
        h.fail(clause + '.one_value_per_row', wit, 'a new column has missing cells (row misalignment)')
    return list(after.columns[n0:])


def main():
    h = Harness('C11')
    import outrank.core_ranking as CR
    rng = np.random.default_rng(1100 + h.seed)
    quick = h.tier == 'quick'
    TOK = ['a', 'ab', 'b', 'ba', 'abc', '1', '11', '', 'x y', 'é', '{}', 'NA', ' b', 'b ', ' ', 'A', '\tab']       # a token is its exact text

    # ------------------------------------------------------------------ multi-value expansion
    def tokens(cell):
        return set(cell.replace(',', '-').split('-'))

    for case in range(60 if quick else 600):
        n = int(rng.integers(1, 8))
        pool = list(rng.choice(TOK, size=int(rng.integers(1, 6)), replace=False))
        def cell():
            k = int(rng.integers(0, 4))
            toks = [str(rng.choice(pool)) for _ in range(k)]
            out = ''
            for i, t in enumerate(toks):
                out += t + (str(rng.choice([',', '-'])) if i + 1 < len(toks) else '')
            return out
        df = pd.DataFrame({'m1': [cell() for _ in range(n)], 'm2': [cell() for _ in range(n)], 'other': [str(rng.choice(pool)) for _ in range(n)],
                           'label': [str(rng.integers(0, 2)) for _ in range(n)]})
        feats = str(rng.choice(['m1', 'm1;m2', 'm2;m1', 'm2']))
        missing = str(rng.choice([',{}', 'NA', 'NA,{}', 'a']))
        args = SimpleNamespace(explode_multivalue_features=feats, missing_value_symbols=missing)
        snap = df.copy(deep=True)
        wit = {'rows': df.values.tolist(), 'columns': list(df.columns), 'explode_multivalue_features': feats, 'missing_value_symbols': missing}
        try:
            out = CR.compute_expanded_multivalue_features(df, LOG, args, Pbar())
        except Exception as e:
            h.fail('compute_expanded_multivalue_features.no_raise', wit, f'{type(e).__name__}: {e}')
            continue
        new = appended_only(h, 'compute_expanded_multivalue_features', df, snap, out, wit)
        h.record(('mv', case), len(new) > 0, sample=wit)
        miss = set(missing.split(','))
        expect = {}
        for f in feats.split(';'):
            allt = set().union(*[tokens(c) for c in snap[f]]) - miss
            for t in allt:
                expect[f'MULTIEX-{f}-{t}'] = ['1' if t in tokens(c) else '' for c in snap[f]]
        if set(new) != set(expect) or len(new) != len(set(new)):
            h.fail('compute_expanded_multivalue_features.ensures.one_indicator_per_token', wit, f'new {sorted(new)} expected {sorted(expect)}')
            continue
        for name in new:
            if out[name].tolist() != expect[name]:
                h.fail('compute_expanded_multivalue_features.ensures.indicator_iff_row_contains_token', dict(wit, column=name),
                       f'{out[name].tolist()} expected {expect[name]}',
                       obligations=['core_ranking.compute_expanded_multivalue_features/ensures.indicator_iff_row_contains_token'])

    # ------------------------------------------------------------------ sub-features
    SV = ['a', 'b', 'ab', '', '1', 'x&y', 'AND', 'é', 'a ', 'a\t', ' ', 'b  ']       # values differing only in trailing blanks are different values
    for case in range(60 if quick else 600):
        n = int(rng.integers(1, 8))
        pool = list(rng.choice(SV, size=int(rng.integers(1, 5)), replace=False))
        df = pd.DataFrame({c: [str(rng.choice(pool)) for _ in range(n)] for c in ['p', 'q', 'r']})
        df['label'] = [str(rng.integers(0, 2)) for _ in range(n)]
        mapping = str(rng.choice(['p->q', 'p<->q', 'p->q;q->r', 'p<->q;r->p', 'r<->p;p<->q', 'p->q;p->r']))
        args = SimpleNamespace(subfeature_mapping=mapping)
        snap = df.copy(deep=True)
        wit = {'rows': df.values.tolist(), 'columns': list(df.columns), 'subfeature_mapping': mapping}
        try:
            out = CR.compute_subfeatures(df, LOG, args, Pbar())
        except Exception as e:
            h.fail('compute_subfeatures.no_raise', wit, f'{type(e).__name__}: {e}')
            continue
        new = appended_only(h, 'compute_subfeatures', df, snap, out, wit)
        h.record(('sub', case), len(new) > 0, sample=wit)
        expect = {}
        for pair in mapping.split(';'):
            if '<->' in pair:
                a, b = pair.split('<->')
                for vb in pd.unique(snap[b]):
                    for va in pd.unique(snap[a]):
                        expect[f'SUBFEATURE|{a}|{b}-{va}&{vb}'] = ['1' if (x == va and y == vb) else '0' for x, y in zip(snap[a], snap[b])]
            else:
                a, b = pair.split('->')
                for vb in pd.unique(snap[b]):
                    expect[f'SUBFEATURE-{a}&{vb}'] = [x + 'AND' + y if y == vb else '' for x, y in zip(snap[a], snap[b])]
        if set(new) != set(expect):
            h.fail('compute_subfeatures.ensures.one_column_per_selector_value', wit, f'new {sorted(new)} expected {sorted(expect)}')
            continue
        for name in new:
            if out[name].tolist() != expect[name]:
                h.fail('compute_subfeatures.ensures.rule', dict(wit, column=name), f'{out[name].tolist()} expected {expect[name]}')

    # ------------------------------------------------------------------ noise / control features
    for case in range(10 if quick else 60):
        n = int(rng.integers(1, 30))
        df = pd.DataFrame({'f': [str(rng.integers(0, 5)) for _ in range(n)], 'label': [str(rng.choice(['0', '1', 'x'])) for _ in range(n)]})
        snap = df.copy(deep=True)
        wit = {'rows': df.values.tolist()}
        out = CR.include_noisy_features(df, LOG, SimpleNamespace(label_column='label'))
        new = appended_only(h, 'include_noisy_features', df, snap, out, wit)
        h.record(('noise', case), True)
        if 'CONTROL-target' not in new or out['CONTROL-target'].tolist() != snap['label'].tolist():
            h.fail('include_noisy_features.ensures.target_control_replicates_label', wit, f"{out.get('CONTROL-target')}")
        if any(not str(c).startswith('CONTROL-') for c in new) or len(new) < 10:
            h.fail('include_noisy_features.ensures.control_columns', wit, f'{new}')
        # a second batch of the same size with other labels: the control column follows THIS batch
        df2 = pd.DataFrame({'f': list(df['f']), 'label': [('1' if v == '0' else '0') for v in snap['label']]})
        out2 = CR.include_noisy_features(df2, LOG, SimpleNamespace(label_column='label'))
        if out2['CONTROL-target'].tolist() != df2['label'].tolist():
            h.fail('include_noisy_features.ensures.target_control_replicates_label', dict(wit, second_batch_same_size=True),
                   'the second batch carries the labels of the first one')

    # ------------------------------------------------------------------ transformations
    for case in range(6 if quick else 40):
        n = int(rng.integers(5, 40))
        df = pd.DataFrame({'num': [str(round(float(rng.gamma(2.0, 10.0)), 2)) for _ in range(n)], 'cat': [str(rng.integers(0, 3)) for _ in range(n)],
                           'label': [str(rng.integers(0, 2)) for _ in range(n)]})
        snap = df.copy(deep=True)
        wit = {'rows': df.values.tolist()}
        for preset in ('minimal', 'default', 'fw-transformers'):
            try:
                out = CR.enrich_with_transformations(df, {'num'}, LOG, SimpleNamespace(transformers=preset))
            except Exception as e:
                h.fail('enrich_with_transformations.no_raise', dict(wit, preset=preset), f'{type(e).__name__}: {e}')
                continue
            new = appended_only(h, 'enrich_with_transformations', df, snap, out, dict(wit, preset=preset))
            h.record(('tr', case, preset), len(new) > 0)
            if any(not c.startswith('num') for c in new):
                h.fail('enrich_with_transformations.ensures.names', dict(wit, preset=preset), f'{new}')

    # ------------------------------------------------------------------ the whole construction pipeline, every subset of flags
    captured = {}
    real_cov = CR.compute_coverage

    class _Stop(Exception):
        pass

    def capture(frame, args):
        # first step after the constructors: observe the constructed frame, skip the statistics / ranking steps
        captured['frame'] = frame
        raise _Stop()
    CR.compute_coverage = capture
    try:
        for case in range(2 if quick else 10):
            n = int(rng.integers(6, 20))
            cols = ['mv', 'p', 'q', 'num', 'label']
            rows = [[','.join(rng.choice(['a', 'ab', 'b'], size=int(rng.integers(1, 3)))), str(rng.choice(['u', 'v'])), str(rng.choice(['s', 't', 'st'])),
                     str(round(float(rng.gamma(2.0, 10.0)), 2)), str(rng.integers(0, 2))] for _ in range(n)]
            for flags in list(itertools.product([False, True], repeat=5)) + [(False, False, False, False, False, '3mr'), (True, True, False, False, False, '3mr')]:
                heur = 'MI-numba-3mr' if len(flags) == 6 else 'MI-numba-randomized'
                flags = flags[:5]
                mv, sub, inter, tr, noise = flags
                args = SimpleNamespace(feature_set_focus=None, transformers='minimal' if tr else 'none', explode_multivalue_features='mv' if mv else 'False',
                                       subfeature_mapping='p->q;p<->q' if sub else 'False', interaction_order=2 if inter else 1, reference_model_JSON='',
                                       heuristic=heur, include_noise_baseline_features='True' if noise else 'False', label_column='label',
                                       missing_value_symbols=',{}', max_unique_hist_constraint=30000, task='ranking', combination_number_upper_bound=1000,
                                       rare_value_count_upper_bound=1)
                wit = {'rows': rows, 'columns': cols, 'heuristic': heur, 'flags': dict(zip(['explode', 'subfeatures', 'interactions', 'transformers', 'noise'], flags))}
                CR.GLOBAL_PRIOR_COMB_COUNTS.clear()
                try:
                    CR.compute_batch_ranking([list(r) for r in rows], {'num'}, args, None, cols, LOG, Pbar())
                except _Stop:
                    pass
                except Exception as e:
                    h.fail('compute_batch_ranking.no_raise', wit, f'{type(e).__name__}: {e}')
                    continue
                src = pd.DataFrame(rows, columns=cols)
                new = appended_only(h, 'compute_batch_ranking', src, src.copy(), captured['frame'], wit)
                h.record(('pipe', case, flags, heur), True)
                fam = {'MULTIEX-': mv, 'SUBFEATURE': sub, ' AND ': inter, 'CONTROL-': noise}
                if heur != 'MI-numba-randomized':
                    fam = {'MULTIEX-': mv, 'SUBFEATURE': sub, 'CONTROL-': noise}
                for marker, on in fam.items():
                    if any(marker in str(c) for c in new) != on and not (marker == ' AND ' and not inter):
                        h.fail('compute_batch_ranking.constructors_follow_flags', wit, f'{marker!r} columns present={not on}; new={new[:8]}')
    finally:
        CR.compute_coverage = real_cov
    h.bounded_note('all five constructors: only append, row aligned, follow the stated rule; pipeline under all 32 flag subsets',
                   'random frames up to 7 rows (multi-value, sub-features), 30-40 rows (noise, transformations), token pools with substrings / empty / missing symbols',
                   h.evaluations)
    return h.finish()


if __name__ == '__main__':
    sys.exit(common.run_main(main))
