"""C05 native: every emitted score is the selected heuristic applied to the two coded columns (real code)."""
import glob
import logging
import os
import re
import sys

import numpy as np
import pandas as pd

import common
import mi_common as M
from common import Harness, approx
from rank_common import InlinePool, Pbar, make_args

REPO = os.environ.get('VERIF_REPO', '/repo')


def documented_names():
    names = set()
    files = []
    for pat in ('examples/*.sh', 'scripts/*.sh', 'benchmarks/*.sh', 'README.md', 'docs/*.md', 'outrank/__main__.py', 'outrank/core_utils.py'):
        files += glob.glob(os.path.join(REPO, pat))
    for f in files:
        try:
            txt = open(f, encoding='utf-8', errors='ignore').read()
        except OSError:
            continue
        for m in re.finditer(r'--heuristic[ =]+([A-Za-z0-9_\-]+)', txt):
            names.add(m.group(1))
        for m in re.finditer(r'Heuristic ([A-Za-z0-9_\-]+) ', txt):
            names.add(m.group(1))
    return sorted(n for n in names if not n.startswith('surrogate-'))


def max_joint_frequency(a, b):
    from collections import Counter
    return max(Counter(zip(a.tolist(), b.tolist())).values()) / len(a)


def main():
    h = Harness('C05')
    from outrank.algorithms import importance_estimator as IE
    import outrank.core_ranking as CR
    from sklearn.feature_selection import mutual_info_classif
    from sklearn.metrics import adjusted_mutual_info_score
    from scipy.stats import pearsonr
    rng = np.random.default_rng(500 + h.seed)
    quick = h.tier == 'quick'
    warnings = []
    IE.logger.warning = lambda msg, *a, **k: warnings.append(str(msg))

    def reference(name, v1, v2, ratio=1.0):
        if name == 'MI':
            return float(mutual_info_classif(v1.reshape(-1, 1), v2.reshape(-1), discrete_features=True)[0])
        if name == 'MI-numba-3mr':
            return M.plugin_mi_reference(v1.astype(np.int32), v2.astype(np.int32))
        if name == 'MI-numba-randomized':
            Y, X = v1.astype(np.int32), v2.astype(np.int32)
            fv, fc = M.support(X)
            cv, cc = M.support(Y)
            if np.array_equal(X, Y):
                return M.entsum_spec(cc, len(X), len(cv)) - M.condsum_ns(X, Y, fv, fc, len(X), cv, len(fv))
            return M.condsum_bg_ns(X, Y, fv, fc, len(X), cv, len(fv)) - M.condsum_ns(X, Y, fv, fc, len(X), cv, len(fv))
        if name == 'max-value-coverage':
            return max_joint_frequency(v1, v2)
        if name == 'AMI':
            return float(adjusted_mutual_info_score(v1, v2))
        if name == 'correlation-Pearson':
            return float(pearsonr(v1, v2)[0])
        if name == 'Constant':
            return 0.0
        return None

    table = ['MI', 'MI-numba-3mr', 'MI-numba-randomized', 'max-value-coverage', 'AMI', 'correlation-Pearson', 'Constant']
    docs = documented_names()
    for n in docs:
        if n not in table:
            h.fail('documented_name_without_scorer_spec', {'name': n}, 'a heuristic name used in docs/examples/scripts has no scorer spec here')
    # ---- dispatch: every name on several coded vector pairs, with the dtypes the pipeline produces (int8/int16 codes)
    n_pairs = 25 if quick else 250
    for p in range(n_pairs):
        n = int(rng.integers(5, 400))
        card = int(rng.choice([2, 3, 10, 20, 60, 100, 120, 200, 1000]))
        card2 = int(rng.choice([2, 3, 5, 20, 100]))
        # the dtypes pandas gives category codes: int8 below 128 categories, int16 below 32768
        dt = np.int8 if card < 128 else np.int16
        dt2 = np.int8 if card2 < 128 else np.int16
        v2 = rng.integers(0, card2, n).astype(dt2)
        v1 = ((v2.astype(np.int64) + rng.integers(0, card, n)) % card).astype(dt)
        if p % 7 == 0:
            v1 = v2.copy()
        for name in sorted(set(table) | set(docs)):
            args = make_args(heuristic=name)
            del warnings[:]
            wit = {'heuristic': name, 'vector_first': v1, 'vector_second': v2}
            try:
                got = float(IE.conduct_feature_ranking(v1, v2, args))
            except Exception as e:
                h.record(('dispatch', p, name))
                h.fail('conduct_feature_ranking.no_raise', wit, f'{type(e).__name__}: {e}',
                       obligations=['importance_estimator.conduct_feature_ranking/call'])
                continue
            h.record(('dispatch', p, name), len(set(v1.tolist())) > 1, sample=wit)
            if any('not defined' in w for w in warnings) and name != 'Constant':
                h.fail('documented_name_degrades_to_constant', wit, f'fell through to the undefined-heuristic branch: {warnings}',
                       obligations=[f'importance_estimator.conduct_feature_ranking/ensures.{name}'])
                continue
            ref = reference(name, v1, v2)
            if ref is not None and not (approx(got, ref, 1e-4) or (np.isnan(got) and np.isnan(ref))):
                h.fail(f'conduct_feature_ranking.ensures.{name}', wit, f'got {got}, {name} reference {ref}',
                       obligations=[f'importance_estimator.conduct_feature_ranking/ensures.{name}'])
    # ---- roles and whole rows: string frames (empty strings, unicode), label anywhere, target-only / pairwise
    n_frames = 12 if quick else 150
    for fidx in range(n_frames):
        nrows = int(rng.integers(8, 60))
        vals = ['', 'a', 'b', 'ü', '0', '00', 'x y']
        if fidx % 3 == 1:
            # values are compared as they are: blanks around them, case and zero padding distinguish categories
            vals = ['a', 'a ', ' a', 'A', '', ' ', '0', '0.0', 'a\t']
        cols = ['f1', 'f2', 'f3']
        cols.insert(int(rng.integers(0, 4)), 'label')
        df = pd.DataFrame({c: rng.choice(vals[:int(rng.integers(2, len(vals) + 1))], nrows) for c in cols})
        coded = pd.DataFrame({c: df[c].astype('category').cat.codes for c in cols})
        for name in ('MI-numba-randomized', 'MI-numba-3mr', 'max-value-coverage', 'MI', 'Constant', 'AMI', 'correlation-Pearson'):
            for mode in ('True', 'False'):
                args = make_args(heuristic=name, target_ranking_only=mode)
                CR.GLOBAL_PRIOR_COMB_COUNTS.clear()
                try:
                    rows = CR.mixed_rank_graph(df, args, InlinePool(), Pbar()).triplet_scores
                except Exception as e:
                    h.record(('rowfail', fidx, name, mode), True)
                    h.fail('mixed_rank_graph.no_raise', {'frame_index': fidx, 'heuristic': name, 'target_ranking_only': mode,
                                                         'frame': df.to_dict('list')}, f'{type(e).__name__}: {e}')
                    continue
                for a, b, s in rows:
                    if a == 'label':
                        v1, v2 = coded[b].values, coded['label'].values
                    else:
                        v1, v2 = coded[a].values, coded[b].values
                    wit = {'frame_index': fidx, 'heuristic': name, 'pair': [a, b], 'target_ranking_only': mode,
                           'first': v1, 'second': v2}
                    h.record(('row', fidx, name, mode, a, b), True)
                    # the emitted pair may be either orientation; both carry the score of the evaluated orientation
                    cands = [reference(name, v1, v2)]
                    if b == 'label' or a == 'label':
                        pass
                    else:
                        cands.append(reference(name, coded[b].values, coded[a].values))
                    def same(x, c):
                        if c is None:
                            return False
                        if np.isnan(c) or np.isnan(x):
                            return bool(np.isnan(c) and np.isnan(x))
                        return approx(x, c, 1e-4)
                    if not any(same(float(s), c) for c in cands):
                        h.fail(f'row_score_is_heuristic[{name}]', wit, f'row score {s}, expected one of {cands}',
                               obligations=['core_ranking.mixed_rank_graph/ensures.score_is_selected_heuristic',
                                            'importance_estimator.generate_data_for_ranking/ensures'])
    h.bounded_note('dispatch per documented/statement heuristic name vs independent reference scorers on int8/int16 coded vectors; '
                   'rows of the real mixed_rank_graph vs the heuristic on the coded columns with the label as target',
                   f'{n_pairs} vector pairs x names; {n_frames} string frames x 7 heuristics x 2 modes', h.evaluations)
    h.rules.append(f'documented names extracted this run: {docs}')
    return h.finish()


if __name__ == '__main__':
    sys.exit(common.run_main(main))
