"""C13 native: data-quality statistics are exact and independent of the batch split (real functions, every composition)."""
import itertools
import json
import sys
from collections import Counter
from types import SimpleNamespace

import numpy as np
import pandas as pd

import common
from common import Harness
from rank_common import Pbar


def compositions(n, limit, rng):
    allc = []
    for mask in range(2 ** (n - 1)):
        cuts = [i + 1 for i in range(n - 1) if mask >> i & 1]
        allc.append([b - a for a, b in zip([0] + cuts, cuts + [n])])
    if len(allc) > limit:
        idx = rng.choice(len(allc), size=limit, replace=False)
        allc = [allc[0], allc[-1]] + [allc[i] for i in idx]
    return allc


def main():
    h = Harness('C13')
    import outrank.core_ranking as CR
    rng = np.random.default_rng(1300 + h.seed)
    quick = h.tier == 'quick'

    def reset():
        for g in (CR.GLOBAL_CARDINALITY_STORAGE, CR.GLOBAL_COUNTS_STORAGE, CR.GLOBAL_RARE_VALUE_STORAGE, CR.IGNORED_VALUES):
            g.clear()

    def consume(rows, cols, split, thr, missing, bound):
        reset()
        covs = []
        pos = 0
        for size in split:
            df = pd.DataFrame(rows[pos:pos + size], columns=cols)
            pos += size
            args = SimpleNamespace(missing_value_symbols=missing, rare_value_count_upper_bound=thr)
            covs.append(dict(CR.compute_coverage(df, args)))
            CR.compute_cardinalities(df, Pbar(), bound)
            CR.compute_value_counts(df, args)
        card = {c: len(CR.GLOBAL_CARDINALITY_STORAGE[c]) for c in cols}
        hist = {c: dict(CR.GLOBAL_COUNTS_STORAGE[c].default_counter) for c in cols}
        rare = dict(CR.GLOBAL_RARE_VALUE_STORAGE)
        return covs, card, hist, rare

    n_cases = 25 if quick else 250
    for case in range(n_cases):
        n = int(rng.integers(2, 9 if quick else 11))
        cols = ['f1', 'f2', 'label']
        vals = ['', 'a', 'b', 'c', '{}', 'a b', 'é', '.', 'ab', '(a)', '?', 'N', '+', 'a ', 'A', ' ']
        if case % 3 == 1:
            # long values (URLs, ids with a common stem, combined features) that differ only at the end, in the middle or in
            # the first character: the distinct count is over whole values whatever their length
            stem = 'https://example.org/' + 'seg/' * 60
            vals = vals[:4] + [stem + '1', stem + '2', stem + '12', 'X' + stem, stem[:130] + 'Z' + stem[130:], stem[:47] + '#' + stem[47:]]
        rows = [[str(rng.choice(vals[:int(rng.integers(2, len(vals) + 1))])) for _ in cols] for _ in range(n)]
        thr = int(rng.integers(0, 4))
        missing = str(rng.choice([',{}', 'NA', ',', '.', 'a.', '(a)', '?', '*,NA', '[a]', 'a|b', '\\N', '+']))   # symbols are literal strings, not patterns
        bound = int(rng.choice([2, 3, 30000]))
        miss_set = set(missing.split(','))
        ref = None
        for split in compositions(n, 40 if quick else 200, rng):
            covs, card, hist, rare = consume(rows, cols, split, thr, missing, bound)
            wit = {'rows': rows, 'split': split, 'threshold': thr, 'missing_value_symbols': missing, 'hist_bound': bound}
            h.record(('c13', case, tuple(split)), len(split) > 1, sample=wit if len(split) == 2 else None)
            # exact recomputation
            pos = 0
            for bi, size in enumerate(split):
                for ci, c in enumerate(cols):
                    col = [r[ci] for r in rows[pos:pos + size]]
                    exp = (1 - sum(col.count(x) for x in miss_set) / size) * 100
                    if abs(covs[bi][c] - exp) > 1e-9:
                        h.fail('compute_coverage.per_batch_percentage', wit, f'batch {bi} column {c}: {covs[bi][c]} vs {exp}')
                pos += size
            for ci, c in enumerate(cols):
                col = [r[ci] for r in rows]
                distinct = len({v for v in col if v})
                if card[c] != distinct:
                    h.fail('cardinality_exact_below_warmup', wit, f'{c}: {card[c]} vs {distinct}')
                if len(set(col)) < bound and hist[c] != dict(Counter(col)):
                    h.fail('repetition_counter_exact_below_bound', wit, f'{c}: {hist[c]} vs {dict(Counter(col))}')
            exp_rare = {(c, v): k for ci, c in enumerate(cols) for v, k in Counter(r[ci] for r in rows).items() if k <= thr}
            if rare != exp_rare:
                h.fail('compute_value_counts.ensures.store_exact_below_threshold', wit, f'rare-value store {rare} vs exact {exp_rare}',
                       obligations=['core_ranking.compute_value_counts/ensures.store_exact_below_threshold'])
            state = (card, hist, rare)
            if ref is None:
                ref = (state, split)
            elif state != ref[0]:
                h.fail('split_independent', dict(wit, reference_split=ref[1]), f'{state} vs {ref[0]}')
    # ---- cardinality across the sketch's warm-up capacity does not depend on the split (the value that arrives when the warm-up
    #      set is full must not be lost): 2^18 distinct values, one more, then that one again - in one batch / split in two places
    Wc = 2 ** 18
    base_vals = [f'u{i}' for i in range(Wc)]
    results = {}
    for split_name, batches in (('A | x | x', [base_vals, ['extra'], ['extra']]), ('A | x', [base_vals, ['extra']]), ('A+x | x', [base_vals + ['extra'], ['extra']])):
        reset()
        for b in batches:
            CR.compute_cardinalities(pd.DataFrame({'c': b}), Pbar(), 30000)
        results[split_name] = len(CR.GLOBAL_CARDINALITY_STORAGE['c'])
    h.record(('card-capacity',), True)
    if len(set(results.values())) != 1:
        h.fail('split_independent', {'column': '2^18 distinct values, then one more value seen once or twice', 'splits': list(results)},
               f'cardinality per split: {results}')
    # ---- end to end: the "(cardinality; coverage)" annotations of a real multi-batch CLI run (coverage = mean of per-batch percentages)
    import os
    import re
    import tempfile
    import e2e
    B = 1100
    cov_plan = {'f1': [1.0, 0.0, 1.0, 0.2], 'f2': [0.5, 0.9, 1.0, 0.8]}       # f1 is entirely missing in the second batch (coverage 0 counts)
    rows = []
    for b in range(4):
        for i in range(B):
            r = []
            for c in ('f1', 'f2'):
                present = (i / B) < cov_plan[c][b]
                r.append(f'{c}v{(i + b) % 6}' if present else 'NA')
            rows.append(r + [str((i + b) % 2)])
    with tempfile.TemporaryDirectory(dir=os.getcwd()) as d:
        e2e.write_csv(d, ['f1', 'f2', 'label'], rows)
        res = e2e.run_cli(d, {'task': 'ranking', 'heuristic': 'MI-numba-randomized', 'minibatch_size': B, 'subsampling': 1, 'num_threads': 1,
                              'include_cardinality_in_feature_names': 'True', 'missing_value_symbols': 'NA', 'target_ranking_only': 'True'})
    h.record(('annotations',), True)
    wit = {'rows': len(rows), 'minibatch_size': B, 'missing_value_symbols': 'NA', 'per_batch_presence': cov_plan}
    if res['rc'] != 0 or 'pairwise_ranks.tsv' not in res['files']:
        h.fail('annotations.cli_completes', wit, f"rc={res['rc']} {res['stderr'][-300:]}")
    else:
        ann = {}
        for t in e2e.parse_tsv(res['files']['pairwise_ranks.tsv']):
            for nm in (t['FeatureA'], t['FeatureB']):
                m = re.match(r'^(.*)-\((\d+); (-?\d+)\)$', nm)
                if m:
                    ann[m.group(1)] = (int(m.group(2)), int(m.group(3)))
        for ci, c in enumerate(('f1', 'f2')):
            col = [r[ci] for r in rows]
            card = len({v for v in col if v})
            per_batch = [(1 - col[b * B:(b + 1) * B].count('NA') / B) * 100 for b in range(4)]
            cov = int(round(float(np.mean(per_batch)), 1))
            if ann.get(c) != (card, cov):
                h.fail('annotations.cardinality_and_mean_coverage', dict(wit, feature=c), f'annotated {ann.get(c)}, exact (cardinality; mean of per-batch coverage) = {(card, cov)}')
    h.bounded_note('"(cardinality; coverage)" annotations of a real 4-batch CLI run with unequal per-batch coverage', '1 run', 1)
    h.bounded_note('coverage / cardinality / repetition counter / rare-value store vs exact recomputation, and equality across '
                   'every composition of the row count (bounds 2, 3 and 30000 for the repetition counter)',
                   f'{n_cases} row sequences of 2..10 rows x all (or 200 sampled) compositions', h.evaluations)
    return h.finish()


if __name__ == '__main__':
    sys.exit(common.run_main(main))
