"""C06 native: the rank graph covers exactly the requested pairs in both orientations (real functions)."""
import itertools
import sys

import numpy as np
import pandas as pd

import common
from common import Harness
from rank_common import InlinePool, Pbar, make_args


def expected_pairs(cols, label, pairwise, mr3):
    """unordered pairs (as frozensets of 1 or 2 names) the statement asks for."""
    rel = [c for c in cols if ' AND_REL ' in c] if mr3 else []
    nonrel = [c for c in cols if c not in rel]
    exp = set()
    if mr3 or pairwise:
        for a in nonrel:
            for b in nonrel:
                exp.add(frozenset((a, b)))
        for r in rel:
            exp.add(frozenset((r, label)))
    else:
        for a in cols:
            exp.add(frozenset((a, label)))
    return exp


def main():
    h = Harness('C06')
    import outrank.core_ranking as CR
    rng = np.random.default_rng(600 + h.seed)
    quick = h.tier == 'quick'
    names_pool = ['a', 'b', 'c', 'x y', 'f-1', 'a AND b', 'b AND c', 'é', '0']
    n_cases = 120 if quick else 1500
    for case in range(n_cases):
        k = 0 if case % 12 == 5 else int(rng.integers(1, 7))       # k == 0: the label is the only column (its pair with itself is requested)
        cols = list(rng.choice(names_pool, size=min(k, len(names_pool)), replace=False))
        mr3 = bool(rng.integers(0, 2))
        if mr3 and len(cols) >= 2 and rng.random() < 0.7:
            cols.append(f'{cols[0]} AND_REL {cols[1]}')
        label_pos = int(rng.integers(0, len(cols) + 1))
        cols.insert(label_pos, 'label')
        pairwise = bool(rng.integers(0, 2))
        heuristic = str(rng.choice(['MI-numba-3mr'] if mr3 else ['MI-numba-randomized', 'MI', 'Constant', 'max-value-coverage', 'correlation-Pearson']))
        cap = int(rng.choice([0, 1, 2, 3, 5, 10 ** 6]))
        args = make_args(heuristic=heuristic, target_ranking_only='False' if pairwise else 'True',
                         combination_number_upper_bound=cap)
        wit = {'columns': cols, 'heuristic': heuristic, 'pairwise': pairwise, 'cap': cap}
        # --- enumeration
        args_e = make_args(heuristic=heuristic, target_ranking_only='False' if pairwise else 'True', combination_number_upper_bound=cap)
        combos = CR.get_combinations_from_columns(pd.Index(cols), args_e)
        got = {frozenset(c) for c in combos}
        exp = expected_pairs(cols, 'label', pairwise, mr3)
        h.record(('enum', case), len(cols) > 2, sample=wit)
        if got != exp:
            h.fail('get_combinations_from_columns.exact_pairs', wit, f'missing {sorted(map(sorted, exp - got))} extra {sorted(map(sorted, got - exp))}',
                   obligations=['core_ranking.get_combinations_from_columns/ensures'])
        if mr3 and args_e.combination_number_upper_bound != min(cap, 10 ** 4):
            h.fail('get_combinations_from_columns.ensures.mr3_cap', wit, args_e.combination_number_upper_bound)
        # --- rank graph rows: three consecutive batches (the visit counter of the fair sampler carries over between batches)
        CR.GLOBAL_PRIOR_COMB_COUNTS.clear()
        nrows = 30
        unordered = set()
        for batch in range(3):
            df = pd.DataFrame({c: rng.integers(0, 3, nrows).astype(str) for c in cols})
            if batch == 1 and len(cols) > 1:
                # a column that happens to be constant in this batch is still a column
                const = [c for c in cols if c != 'label'][0]
                df[const] = 'same'
            summary = CR.mixed_rank_graph(df, args, InlinePool(), Pbar())
            rows = summary.triplet_scores
            h.record(('graph', case, batch), True)
            bwit = dict(wit, batch=batch + 1)
            if any(a not in cols or b not in cols for a, b, _ in rows):
                h.fail('mixed_rank_graph.ensures.names_in_space', bwit, rows[:6])
            pairs = [(a, b) for a, b, _ in rows]
            unordered_b = {frozenset(p) for p in pairs}
            unordered |= unordered_b
            n_eval = min(cap if not mr3 else min(cap, 10 ** 4), len(combos))
            if heuristic == 'Constant':
                if any(s != 0.0 for _, _, s in rows) or len(rows) != n_eval:
                    h.fail('mixed_rank_graph.ensures.constant_once', bwit, rows[:6])
            else:
                score = {}
                for a, b, s in rows:
                    score.setdefault((a, b), []).append(s)
                for (a, b), ss in score.items():
                    if (b, a) not in score or sorted(score[(b, a)]) != sorted(ss):
                        h.fail('mixed_rank_graph.ensures.both_orientations', bwit, f'pair {(a, b)} scores {ss} mirror {score.get((b, a))}')
                if len(rows) != 2 * n_eval:
                    h.fail('mixed_rank_graph.reduced_only_by_cap', bwit, f'{len(rows)} rows for {n_eval} pairs that fit under the cap')
            if cap >= len(combos) and unordered_b != exp:
                h.fail('mixed_rank_graph.reduced_only_by_cap', bwit, sorted(map(sorted, exp - unordered_b)))
        if not unordered <= exp:
            h.fail('mixed_rank_graph.evaluated_subset_of_requested', wit, sorted(map(sorted, unordered - exp)))
        # the same args object used for a WIDER frame afterwards: the cap is the user's, not the previous batch's pair count
        if heuristic != 'Constant' and not mr3 and cap >= len(combos):
            wide = cols + ['w1', 'w2']
            dfw = pd.DataFrame({c: rng.integers(0, 3, nrows).astype(str) for c in wide})
            CR.GLOBAL_PRIOR_COMB_COUNTS.clear()
            rows_w = CR.mixed_rank_graph(dfw, args, InlinePool(), Pbar()).triplet_scores
            got_w = {frozenset((a, b)) for a, b, _ in rows_w}
            exp_w = expected_pairs(wide, 'label', pairwise, mr3)
            h.record(('wider', case), True)
            if cap >= len(exp_w) + len(wide) and got_w != exp_w:
                h.fail('mixed_rank_graph.reduced_only_by_cap', dict(wit, columns=wide, note='same args object as for the narrower batches before'),
                       f'{len(got_w)} pairs for a wider frame, {len(exp_w)} requested under cap {cap}')
        # same process, same columns, a different label column: the requested pairs follow the label of THIS call
        others = [c for c in cols if c != 'label' and ' AND_REL ' not in c]
        if others and heuristic != 'Constant':
            label2 = others[int(rng.integers(0, len(others)))]
            args2 = make_args(heuristic=heuristic, target_ranking_only='False' if pairwise else 'True', combination_number_upper_bound=10 ** 6,
                              label_column=label2)
            CR.GLOBAL_PRIOR_COMB_COUNTS.clear()
            df = pd.DataFrame({c: rng.integers(0, 3, nrows).astype(str) for c in cols})
            rows2 = CR.mixed_rank_graph(df, args2, InlinePool(), Pbar()).triplet_scores
            got2 = {frozenset((a, b)) for a, b, _ in rows2}
            exp2 = expected_pairs(cols, label2, pairwise, mr3)
            h.record(('relabel', case), True)
            if got2 != exp2:
                h.fail('mixed_rank_graph.pairs_follow_the_label_of_the_call', dict(wit, label_column=label2, previous_label='label'),
                       f'missing {sorted(map(sorted, exp2 - got2))[:6]} extra {sorted(map(sorted, got2 - exp2))[:6]}')
    h.bounded_note('exact pair sets / mirroring / cap on the real get_combinations_from_columns and mixed_rank_graph '
                   '(in-process pool), names with spaces, dashes, " AND ", unicode; label anywhere',
                   f'{n_cases} random configurations, 1..8 columns (label-only frames included)', h.evaluations)
    return h.finish()


if __name__ == '__main__':
    sys.exit(common.run_main(main))
