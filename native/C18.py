"""C18 native: feature summary = per-feature median of label scores, sorted, normalised (real task_summary)."""
import os
import statistics
import sys
import tempfile
from types import SimpleNamespace

import numpy as np
import pandas as pd

import common
from common import Harness, approx


def main():
    h = Harness('C18')
    from outrank import task_summary as TS
    rng = np.random.default_rng(1800 + h.seed)
    quick = h.tier == 'quick'
    for case in range(60 if quick else 800):
        nf = int(rng.integers(1, 7))
        annotated = rng.random() < 0.5
        def ann(n):
            return f'{n}-({int(rng.integers(1, 99))}; {int(rng.integers(0, 101))})' if annotated else n
        order = int(rng.choice([1, 1, 2, 3]))
        base = [f'f{i}' for i in range(nf)]
        if case % 3 == 0:
            # feature names that merely START with the label's name / contain it are ordinary features
            base = base + [str(x) for x in rng.choice(['label_count', 'labelled', 'xlabel', 'label2'], size=2, replace=False)]
        if case % 3 == 1:
            # names that contain the letters of the separator (BRAND, LANDING_PAGE) are ordinary constituents: the separator of an
            # interaction name is ' AND ' with its blanks
            base = base + [str(x) for x in rng.choice(['BRAND', 'LANDING_PAGE', 'HANDSET', 'AND', 'xANDy'], size=2, replace=False)]
            base = base[-2:] + base[:-2]
        feats = list(base)
        if order > 1 and nf >= 2:
            # interactions present in the table need not have the arity of the flag (a reference model adds pairs to an order-3 run)
            feats += [f'{a} AND {b}' for i, a in enumerate(base[:4]) for b in base[i + 1:4]]
            if order == 3 and nf >= 3:
                feats += [f'{base[0]} AND {base[1]} AND {base[2]}']
        names = {f: ann(f) for f in feats + ['label']}
        rows = []
        n_batches = int(rng.integers(1, 4))
        for f in feats:
            for _ in range(n_batches):
                s = float(np.round(rng.normal(), 3)) if rng.random() < 0.8 else float(rng.integers(-2, 3))
                if rng.random() < 0.5:
                    rows.append((names[f], names['label'], s))
                if rng.random() < 0.7:
                    rows.append((names['label'], names[f], s + (0.0 if rng.random() < 0.6 else 1.0)))
        rows.append((names['label'], names['label'], 0.7))
        for a in feats[:3]:
            for b in feats[:3]:
                if a != b:
                    rows.append((names[a], names[b], float(np.round(rng.normal(), 3))))
        rng.shuffle(rows)
        heuristic = str(rng.choice(['MI-numba-randomized', 'MI', 'AMI', 'max-value-coverage', 'surrogate-SGD']))
        with tempfile.TemporaryDirectory(dir=os.getcwd()) as d:
            pd.DataFrame(rows, columns=['FeatureA', 'FeatureB', 'Score']).to_csv(os.path.join(d, 'pairwise_ranks.tsv'), sep='\t', index=False)
            args = SimpleNamespace(output_folder=d, label_column='label', heuristic=heuristic, tldr=False, interaction_order=order)
            wit = {'rows': rows, 'heuristic': heuristic, 'interaction_order': order}
            try:
                TS.outrank_task_result_summary(args)
            except Exception as e:
                h.record(('c18', case), True)
                h.fail('outrank_task_result_summary.no_raise', wit, f'{type(e).__name__}: {e}')
                continue
            out = pd.read_csv(os.path.join(d, 'feature_singles.tsv'), sep='\t')
            agg = None
            if order > 1 and os.path.exists(os.path.join(d, 'feature_singles_aggregated.tsv')):
                try:
                    agg = pd.read_csv(os.path.join(d, 'feature_singles_aggregated.tsv'), sep='\t')
                except pd.errors.EmptyDataError:
                    agg = pd.DataFrame({'Feature': [], 'score': []})
        # independent reference
        per = {}
        for a, b, s in rows:
            if a.split('-')[0] == 'label':
                per.setdefault(b, []).append(s)
            elif b.split('-')[0] == 'label':
                per.setdefault(a, []).append(s)
        med = {f: statistics.median(v) for f, v in per.items()}
        h.record(('c18', case), len(med) > 1, sample=wit if len(rows) < 12 else None)
        got = dict(zip(out['Feature'], out.iloc[:, 1]))
        if sorted(got) != sorted(med) or len(out) != len(med):
            h.fail('create_final_dataframe.ensures.each_feature_exactly_once', wit, f'features {list(out["Feature"])} vs {sorted(med)}',
                   obligations=['task_summary.create_final_dataframe/ensures.each_feature_exactly_once'])
            continue
        scores = list(out.iloc[:, 1])
        if any(scores[i] < scores[i + 1] - 1e-12 for i in range(len(scores) - 1)):
            h.fail('create_final_dataframe.ensures.descending', wit, f'scores {scores}',
                   obligations=['task_summary.create_final_dataframe/ensures.descending'])
        if 'MI' in heuristic and max(med.values()) > min(med.values()):
            lo, hi = min(med.values()), max(med.values())
            exp = {f: (m - lo) / (hi - lo) for f, m in med.items()}
        else:
            exp = med
        if 'MI' in heuristic and max(med.values()) == min(med.values()):
            continue        # all medians equal: normalisation undefined (pre-condition of the contract)
        bad = [f for f in exp if not approx(got[f], exp[f], 1e-9)]
        if bad:
            h.fail('create_final_dataframe.ensures.median_of_label_scores', wit, f'{bad[0]}: {got[bad[0]]} vs {exp[bad[0]]}',
                   obligations=['task_summary.create_final_dataframe/ensures.median_of_label_scores'])
        if 'MI' in heuristic and (not approx(scores[0], 1.0, 1e-12) or not approx(scores[-1], 0.0, 1e-12)):
            h.fail('create_final_dataframe.ensures.mi_best_is_one_worst_is_zero', wit, f'scores {scores}')
        if agg is not None:
            store = {}
            for f in out['Feature']:
                if ' AND ' in f.split('-')[0]:
                    for el in f.split('-')[0].split(' AND '):
                        store.setdefault(el, []).append(got[f])
            exp_agg = {k: statistics.median(v) for k, v in store.items()}
            got_agg = dict(zip(agg['Feature'], agg.iloc[:, 1])) if len(agg) else {}
            # keys read back from the table may be NaN (an empty constituent name): compare them as text
            if sorted(map(str, got_agg)) != sorted(map(str, exp_agg)) or any(not approx(got_agg[k], exp_agg[k], 1e-9) for k in exp_agg):
                h.fail('handle_interaction_order.median_per_constituent', wit, f'{got_agg} vs {exp_agg}')
    h.bounded_note('feature_singles.tsv / feature_singles_aggregated.tsv of the real summary task vs an independent reference '
                   '(annotated and plain names, duplicated orientations, negative scores, several batches, MI / non-MI heuristics)',
                   'random triplet tables', h.evaluations)
    return h.finish()


if __name__ == '__main__':
    sys.exit(common.run_main(main))
