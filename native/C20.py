"""C20 native: derived synthetic structure (correlation, duplicates, combinations, labels, noise, down-sampling) is as declared."""
import math
import sys

import numpy as np

import common
from common import Harness, approx


def pearson(a, b):
    a = np.asarray(a, dtype=np.float64)
    b = np.asarray(b, dtype=np.float64)
    a = a - a.mean()
    b = b - b.mean()
    return float((a * b).sum() / math.sqrt((a * a).sum() * (b * b).sum()))


def main():
    h = Harness('C20')
    from outrank.algorithms.synthetic_data_generators.cc_generator import CategoricalClassification as CC
    rng = np.random.default_rng(2000 + h.seed)
    quick = h.tier == 'quick'
    n_cases = 40 if quick else 500
    for case in range(n_cases):
        nf = int(rng.integers(2, 7))
        ns = int(rng.integers(20, 120))
        seed = int(rng.integers(0, 10 ** 6))
        g = CC(seed=seed)
        X = g.generate_data(nf, ns, cardinality=int(rng.integers(2, 9)), seed=seed)
        base = {'n_features': nf, 'n_samples': ns, 'seed': seed}
        # ---- correlated features
        r = float(rng.choice([-0.95, -0.7, -0.3, -0.1, 0.0, 0.2, 0.5, 0.8, 0.99]))
        idx = [int(i) for i in rng.choice(nf, size=int(rng.integers(1, min(3, nf) + 1)), replace=False)]
        nonconst = [i for i in idx if len(set(X[:, i].tolist())) > 1]
        Xc = g.generate_correlated(X, idx if len(idx) > 1 or rng.random() < 0.5 else idx[0], r)
        info = g.dataset_info['correlations'][-1]
        wit = dict(base, r=r, feature_indices=idx)
        h.record(('corr', case), True, sample=wit)
        if Xc.shape != (ns, nf + len(idx)) or not np.array_equal(Xc[:, :nf], X):
            h.fail('generate_correlated.appends_columns_only', wit, f'shape {Xc.shape}')
        else:
            for j, i in enumerate(idx):
                if i in nonconst:
                    got = pearson(Xc[:, nf + j], X[:, i])
                    if not approx(got, r, 1e-6) and abs(got - r) > 1e-6:
                        h.fail('generate_correlated.pearson_equals_r', wit, f'source column {i}: Pearson {got}, requested {r}')
            rec = np.atleast_1d(info['correlated_indices']).tolist()
            if rec != list(range(nf, nf + len(idx))) or info['correlation_factor'] != r:
                h.fail('generate_correlated.self_description', wit, f'recorded {rec}')
        # ---- duplicates
        didx = [int(i) for i in rng.choice(nf, size=int(rng.integers(1, nf + 1)), replace=True)]
        Xd = g.generate_duplicates(X, didx if len(didx) > 1 or rng.random() < 0.5 else didx[0])
        rec = np.atleast_1d(g.dataset_info['duplicates'][-1]['duplicate_indices']).tolist()
        wit = dict(base, feature_indices=didx)
        h.record(('dup', case), True)
        if Xd.shape != (ns, nf + len(didx)) or not np.array_equal(Xd[:, :nf], X) or not np.array_equal(Xd[:, nf:], X[:, didx]):
            h.fail('generate_duplicates.exact_copies', wit, f'shape {Xd.shape}',
                   obligations=['cc_generator.CategoricalClassification.generate_duplicates/ensures.exact_copies'])
        if rec != list(range(nf, nf + len(didx))):
            h.fail('generate_duplicates.self_description', wit, f'recorded duplicate_indices {rec}, columns added {list(range(nf, nf + len(didx)))}',
                   obligations=['cc_generator.CategoricalClassification.generate_duplicates/ensures.recorded_indices'])
        # ---- combinations
        cidx = [int(i) for i in rng.choice(nf, size=int(rng.integers(2, nf + 1)), replace=False)]
        ctype = str(rng.choice(['linear', 'nonlinear']))
        Xm = g.generate_combinations(X, cidx, combination_type=ctype)
        info = g.dataset_info['combinations'][-1]
        exp = X[:, cidx].sum(axis=1) if ctype == 'linear' else np.sin(X[:, cidx].sum(axis=1))
        h.record(('comb', case), True)
        if Xm.shape != (ns, nf + 1) or not np.allclose(Xm[:, nf], exp) or not np.array_equal(Xm[:, :nf], X) or info['combination_ix'] != nf:
            h.fail('generate_combinations.stated_function_of_sources', dict(base, feature_indices=cidx, type=ctype), f'combination_ix {info["combination_ix"]}')
        # combinations of large-valued int32 sources (domains around 10^9): the stated function is the exact sum, not a wrapped one
        Xbig = (X.astype(np.int64) % 3 + 1).astype(np.int32) * np.int32(700_000_000)
        Xmb = g.generate_combinations(Xbig, cidx, combination_type='linear')
        expb = Xbig[:, cidx].astype(np.int64).sum(axis=1)
        h.record(('comb_big', case), True)
        if Xmb.shape != (ns, nf + 1) or not np.array_equal(Xmb[:, nf].astype(np.float64), expb.astype(np.float64)):
            h.fail('generate_combinations.stated_function_of_sources', dict(base, feature_indices=cidx, type='linear', values='int32 multiples of 7*10^8'),
                   f'got {Xmb[:3, nf].tolist()} expected {expb[:3].tolist()}')
        # ---- labels (quantile branches): monotone step function, proportions when cut points are tie-free
        ncls = int(rng.choice([2, 2, 3, 4]))
        Xf = X.astype(float) + rng.random(X.shape) * 1e-3      # tie-free decision values
        if ncls == 2:
            p = float(rng.choice([0.2, 0.5, 0.7]))
            y = g.generate_labels(Xf, n=2, p=p)
            expected = [p, 1 - p]
        else:
            if rng.random() < 0.5:
                y = g.generate_labels(Xf, n=ncls)
                expected = [1 / ncls] * ncls
            else:
                w = rng.random(ncls) + 0.2
                pl = [float(x) for x in (w / w.sum())]
                pl[-1] = 1 - sum(pl[:-1])
                y = g.generate_labels(Xf, n=ncls, p=pl)
                expected = pl
        d = np.sum(2 * Xf + 3, axis=1)
        order = np.argsort(d, kind='stable')
        ys = np.asarray(y)[order]
        wit = dict(base, n_class=ncls, distribution=expected)
        h.record(('labels', case), True)
        if np.any(np.diff(ys) < 0):
            h.fail('generate_labels.monotone_step_function', wit, 'labels are not monotone in the decision value')
        if set(np.unique(y).tolist()) - set(range(ncls)):
            h.fail('generate_labels.class_set', wit, f'labels {np.unique(y).tolist()}')
        props = [float(np.mean(np.asarray(y) == c)) for c in range(ncls)]
        if any(abs(a - b) > 1.5 / ns + 1e-9 for a, b in zip(props, expected)):
            h.fail('generate_labels.class_proportions', wit, f'proportions {props} vs requested {expected}',
                   witness_class='labels_p_ignored' if False else None)
        # ---- noise
        yb = g.generate_labels(Xf, n=2, p=0.5)
        pn = float(rng.choice([0.0, 0.1, 0.25, 0.5]))
        Xin = X.copy()
        try:
            Xn = g.generate_noise(X.copy(), np.asarray(yb), p=pn, type='categorical')
            h.record(('noise_cat', case), pn > 0)
            for col in range(nf):
                changed = int(np.sum(Xn[:, col] != X[:, col]))
                if changed > int(ns * pn):
                    h.fail('generate_noise.categorical_at_most_floor_pn', dict(base, p=pn, column=col), f'{changed} cells changed, floor(p*n) = {int(ns * pn)}')
                if not set(Xn[:, col].tolist()) <= set(X[:, col].tolist()):
                    h.fail('generate_noise.categorical_own_domain', dict(base, p=pn, column=col), 'noise introduced a value outside the feature domain')
        except Exception as e:
            h.record(('noise_cat', case), True)
            h.fail('generate_noise.categorical_no_raise', dict(base, p=pn), f'{type(e).__name__}: {e}', witness_class='categorical_noise_raises')
        Xmiss = g.generate_noise(Xin, np.asarray(yb), p=pn, type='missing', missing_val=-999)
        h.record(('noise_missing', case), pn > 0)
        if not np.array_equal(Xin, X):
            h.fail('generate_noise.missing_input_untouched', dict(base, p=pn), 'input array was modified')
        for col in range(nf):
            if int(np.sum(Xmiss[:, col] == -999)) != int(ns * pn) or np.any((Xmiss[:, col] != -999) & (Xmiss[:, col] != X[:, col])):
                h.fail('generate_noise.missing_exactly_floor_pn', dict(base, p=pn, column=col), f'{int(np.sum(Xmiss[:, col] == -999))} markers, floor(p*n) = {int(ns * pn)}')
        # missing-type noise with the default (float) marker on a float64 matrix, as after generate_correlated / nonlinear combinations
        Xf64 = X.astype(np.float64)
        snap = Xf64.copy()
        try:
            out = g.generate_noise(Xf64, np.asarray(yb), p=pn, type='missing')
            h.record(('noise_missing_f64', case), pn > 0)
            if not np.array_equal(Xf64, snap) or np.shares_memory(out, Xf64):
                h.fail('generate_noise.missing_input_untouched', dict(base, p=pn, dtype='float64', marker='default'),
                       'input array was modified / returned matrix aliases the input')
            for col in range(nf):
                marks = int(np.sum(~np.isfinite(out[:, col])))
                if marks != int(ns * pn) or np.any(np.isfinite(out[:, col]) & (out[:, col] != snap[:, col])):
                    h.fail('generate_noise.missing_exactly_floor_pn', dict(base, p=pn, column=col, dtype='float64'), f'{marks} markers, floor(p*n) = {int(ns * pn)}')
        except Exception as e:
            h.fail('generate_noise.missing_no_raise', dict(base, p=pn, dtype='float64'), f'{type(e).__name__}: {e}')
        # ---- down-sampling
        yb = np.asarray(yb)
        counts = np.bincount(yb, minlength=2)
        if counts.min() >= 1:
            nd = int(rng.integers(1, counts.min() + 1))
            Xs, ysm = g.downsample_dataset(X, yb, n=nd, seed=int(rng.integers(0, 1000)), reshuffle=bool(rng.integers(0, 2)))
            h.record(('down', case), True)
            ok = len(Xs) == 2 * nd and all(int(np.sum(ysm == c)) == nd for c in (0, 1))
            if ok:
                rows_by_class = {c: {tuple(r) for r in X[yb == c].tolist()} for c in (0, 1)}
                ok = all(tuple(r) in rows_by_class[int(c)] for r, c in zip(Xs.tolist(), ysm.tolist()))
            if not ok:
                h.fail('downsample_dataset.n_rows_of_each_class_from_that_class', dict(base, n=nd), f'{len(Xs)} rows')
    # down-sampling with three and four classes: n rows of each class, every returned row drawn from the class of its label
    for case in range(20 if quick else 200):
        ncls = int(rng.choice([3, 4]))
        ns = int(rng.integers(12, 60))
        Xk = rng.integers(0, 50, (ns, 3)).astype(np.int32)
        yk = rng.integers(0, ncls, ns)
        Xk[:, 0] = yk * 1000 + np.arange(ns)          # every row identifies its own class
        counts = np.bincount(yk, minlength=ncls)
        if counts.min() < 1:
            continue
        nd = int(rng.integers(1, counts.min() + 1))
        Xs, ysm = CC().downsample_dataset(Xk, yk, n=nd, seed=int(rng.integers(0, 1000)), reshuffle=bool(rng.integers(0, 2)))
        h.record(('down-multi', case), True)
        ok = len(Xs) == ncls * nd and all(int(np.sum(np.asarray(ysm) == c)) == nd for c in range(ncls))
        ok = ok and all(int(r[0]) // 1000 == int(c) for r, c in zip(np.asarray(Xs).tolist(), np.asarray(ysm).tolist()))
        if not ok:
            h.fail('downsample_dataset.n_rows_of_each_class_from_that_class', {'classes': ncls, 'n': nd, 'class_sizes': counts.tolist()},
                   f'{len(Xs)} rows; labels {np.asarray(ysm).tolist()[:12]}; source classes {[int(r[0]) // 1000 for r in np.asarray(Xs).tolist()][:12]}')
    h.bounded_note('correlation / duplicates / combinations / quantile labels / noise / down-sampling of the real generator vs '
                   'independent recomputation', f'{n_cases} random data sets, r in (-1,1) incl. negatives', h.evaluations)
    return h.finish()


if __name__ == '__main__':
    sys.exit(common.run_main(main))
