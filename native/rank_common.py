"""Helpers to drive the real mixed_rank_graph / get_combinations_from_columns in-process."""
from types import SimpleNamespace


class InlinePool:
    """Stands in for pathos ProcessingPool: amap evaluates in order, in-process."""

    def __enter__(self):
        return self

    def __exit__(self, *a):
        return False

    def amap(self, f, xs):
        vals = [f(x) for x in xs]
        return SimpleNamespace(ready=lambda: True, get=lambda: vals)

    def map(self, f, xs):
        return [f(x) for x in xs]

    def imap(self, f, xs):
        return iter([f(x) for x in xs])

    def uimap(self, f, xs):
        # imap_unordered delivers in completion order: the reverse of the submission order is a legal schedule
        return iter([f(x) for x in reversed(list(xs))])

    def pipe(self, f, *a):
        return f(*a)

    def apipe(self, f, *a):
        v = f(*a)
        return SimpleNamespace(ready=lambda: True, get=lambda: v)

    def close(self):
        pass

    def join(self):
        pass

    def clear(self):
        pass


class Pbar:
    def set_description(self, *a, **k):
        pass

    def update(self, *a, **k):
        pass

    def close(self):
        pass


def make_args(**kw):
    base = dict(heuristic='MI-numba-randomized', combination_number_upper_bound=10 ** 6, label_column='label',
                target_ranking_only='True', reference_model_JSON='', mi_stratified_sampling_ratio=1.0)
    base.update(kw)
    return SimpleNamespace(**base)
