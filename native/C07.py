"""C07 native: executable contract of prior_combinations_sample + history-level fairness on the real function."""
import copy
import itertools
import sys
from types import SimpleNamespace

import numpy as np

import common
from common import Harness
from rank_common import make_args


def main():
    h = Harness('C07')
    import outrank.core_ranking as CR
    rng = np.random.default_rng(700 + h.seed)
    quick = h.tier == 'quick'
    c = h.reg['prior_combinations_sample']
    n_hist = 150 if quick else 2000
    for hist in range(n_hist):
        CR.GLOBAL_PRIOR_COMB_COUNTS.clear()
        n = int(rng.integers(1, 9))
        names = ['label'] + [f'f{i}' for i in range(n + 1)]      # some candidates contain the label column, some do not
        universe = list(itertools.combinations(names, 2))
        if hist % 4 == 2:
            # candidates are arbitrary hashable tuples: a pair and its mirror are different candidates
            universe = universe + [(b, a) for a, b in universe[:max(1, len(universe) // 2)]]
        rng.shuffle(universe)
        L = [tuple(x) for x in universe[:n]]
        other = [tuple(x) for x in universe[n:n + 3]]
        selected = {x: 0 for x in L}
        # the contract holds for every counter state: half of the histories start from an arbitrary one
        arbitrary = hist % 2 == 1
        if arbitrary:
            for x in L + other:
                if rng.random() < 0.7:
                    CR.GLOBAL_PRIOR_COMB_COUNTS[x] = int(rng.integers(0, 5))
        steps = int(rng.integers(1, 12))
        for step in range(steps):
            cap = int(rng.integers(0, n + 3))
            args = make_args(combination_number_upper_bound=cap, target_ranking_only='False')
            use_other = rng.random() < 0.15
            comb = list(other) if use_other else list(L)
            env = {'combinations': comb, 'args': args, 'GLOBAL_PRIOR_COMB_COUNTS': CR.GLOBAL_PRIOR_COMB_COUNTS}
            old_env = {'combinations': list(comb), 'args': args,
                       'GLOBAL_PRIOR_COMB_COUNTS': copy.deepcopy(CR.GLOBAL_PRIOR_COMB_COUNTS)}
            dom = set(universe)
            extra = {'forall': (lambda f, *k: all(f(x) for x in dom))}
            res = CR.prior_combinations_sample(comb, args)
            env['result'] = res
            wit = {'history': hist, 'step': step, 'arbitrary_initial_counts': arbitrary, 'L': L, 'cap': cap, 'list': comb,
                   'counts_before': dict(old_env['GLOBAL_PRIOR_COMB_COUNTS'])}
            h.record(('c07', hist, step), cap < len(comb) and len(comb) > 1, sample=wit)
            for label, e in c['ensures']:
                try:
                    ok = common.eval_clause(e, env, old_env, extra=extra)
                except Exception as ex:
                    ok, e = False, f'{e} [raised {type(ex).__name__}: {ex}]'
                if not ok:
                    h.fail(f'prior_combinations_sample.ensures.{label}', wit, f'clause false: {e}; result={res}',
                           obligations=[f'core_ranking.prior_combinations_sample/ensures.{label}'])
            if not use_other:
                for x in res:
                    selected[x] += 1
            # history-level statement: counts of a stable duplicate-free list differ by at most one,
            # exactly min(cap, n) distinct candidates per batch, reported counts == number of selections
            cnts = [CR.GLOBAL_PRIOR_COMB_COUNTS[x] for x in L]
            if not arbitrary and max(cnts) - min(cnts) > 1:
                h.fail('history.fair', wit, f'counts {cnts}')
            if not use_other and (len(res) != min(cap, len(L)) or len(set(res)) != len(res)):
                h.fail('history.exactly_cap_distinct', wit, f'result {res}')
            if not arbitrary and any(CR.GLOBAL_PRIOR_COMB_COUNTS[x] != selected[x] for x in L):
                h.fail('history.count_is_selection', wit, f'{dict(CR.GLOBAL_PRIOR_COMB_COUNTS)} vs {selected}')
    # ---- the export: combination_estimation_counts.json of a real CLI run equals the number of batches each pair was evaluated in
    import json
    import os
    import tempfile
    import e2e
    rows = [[str(int(v)) for v in rng.integers(0, 3, 4)] + [str(int(rng.integers(0, 2)))] for _ in range(3 * 1100 + 1100 + 30)]
    with tempfile.TemporaryDirectory(dir=os.getcwd()) as d:
        e2e.write_csv(d, ['f0', 'f1', 'f2', 'f3', 'label'], rows)
        cap, nb = 3, 3          # two full batches of 1650 rows ... computed below
        B = 1650
        res = e2e.run_cli(d, {'task': 'ranking', 'heuristic': 'MI-numba-randomized', 'minibatch_size': B, 'subsampling': 1, 'num_threads': 1,
                              'combination_number_upper_bound': cap, 'target_ranking_only': 'True'})
        h.record(('export',), True)
        n_batches = len(rows) // B + (1 if len(rows) % B > 1024 else 0)
        js = res['files'].get('combination_estimation_counts.json')
        wit = {'rows': len(rows), 'minibatch_size': B, 'cap': cap, 'batches_ranked': n_batches}
        if res['rc'] != 0 or js is None:
            h.fail('export.cli_completes', wit, f"rc={res['rc']} {res['stderr'][-300:]}")
        else:
            counts = json.loads(js)
            vals = list(counts.values())
            if sum(vals) != cap * n_batches or (vals and max(vals) - min(vals) > 1) or len(vals) != 5:
                h.fail('export.reported_counts_equal_selections', dict(wit, exported=counts),
                       f'exported counts sum to {sum(vals)}, expected cap * batches = {cap * n_batches} over 5 label pairs differing by at most one')
    h.bounded_note('combination_estimation_counts.json of a real CLI run (2 full batches + a tail above 1024 rows)', '1 run, cap 3 of 5 pairs', 1)
    h.bounded_note('fairness / exact-cap / count==selections over random histories on the real function (caps change '
                   'between batches, caps larger than the list, interleaved calls on a disjoint list)',
                   f'{n_hist} histories, lists of 1..8 candidates, up to 11 batches', h.evaluations)
    return h.finish()


if __name__ == '__main__':
    sys.exit(common.run_main(main))
