"""C07 native: executable contract of prior_combinations_sample + history-level fairness on the real function."""
import copy
import e2e
import json
import os
import tempfile
from collections import Counter
import itertools
import sys
from types import SimpleNamespace

import numpy as np

import common
from common import Harness
from rank_common import make_args


def main():
    h = Harness('C07')
    import outrank.core_ranking as CR
    rng = np.random.default_rng(700 + h.seed)
    quick = h.tier == 'quick'
    c = h.reg['prior_combinations_sample']
    n_hist = 150 if quick else 2000
    for hist in range(n_hist):
        CR.GLOBAL_PRIOR_COMB_COUNTS.clear()
        n = int(rng.integers(1, 9))
        names = ['label'] + [f'f{i}' for i in range(n + 1)]      # some candidates contain the label column, some do not
        universe = list(itertools.combinations(names, 2))
        if hist % 4 == 2:
            # candidates are arbitrary hashable tuples: a pair and its mirror are different candidates
            universe = universe + [(b, a) for a, b in universe[:max(1, len(universe) // 2)]]
        rng.shuffle(universe)
        L = [tuple(x) for x in universe[:n]]
        other = [tuple(x) for x in universe[n:n + 3]]
        selected = {x: 0 for x in L}
        selected_other = {}
        # the contract holds for every counter state: half of the histories start from an arbitrary one
        arbitrary = hist % 2 == 1
        if arbitrary:
            base = int(rng.choice([0, 0, 7, 97, 998]))       # long-running jobs: counts of different magnitudes side by side
            for x in L + other:
                if rng.random() < 0.7:
                    CR.GLOBAL_PRIOR_COMB_COUNTS[x] = base + int(rng.integers(0, 5))
                elif base:
                    CR.GLOBAL_PRIOR_COMB_COUNTS[x] = base
        steps = int(rng.integers(1, 12)) if hist % 8 != 3 else int(rng.integers(25, 40))       # some long histories (two-digit counts)
        for step in range(steps):
            cap = int(rng.integers(0, n + 3))
            args = make_args(combination_number_upper_bound=cap, target_ranking_only='False')
            use_other = rng.random() < 0.15
            comb = list(other) if use_other else list(L)
            env = {'combinations': comb, 'args': args, 'GLOBAL_PRIOR_COMB_COUNTS': CR.GLOBAL_PRIOR_COMB_COUNTS}
            old_env = {'combinations': list(comb), 'args': args,
                       'GLOBAL_PRIOR_COMB_COUNTS': copy.deepcopy(CR.GLOBAL_PRIOR_COMB_COUNTS)}
            dom = set(universe)
            extra = {'forall': (lambda f, *k: all(f(x) for x in dom))}
            res = CR.prior_combinations_sample(comb, args)
            env['result'] = res
            wit = {'history': hist, 'step': step, 'arbitrary_initial_counts': arbitrary, 'L': L, 'cap': cap, 'list': comb,
                   'counts_before': dict(old_env['GLOBAL_PRIOR_COMB_COUNTS'])}
            h.record(('c07', hist, step), cap < len(comb) and len(comb) > 1, sample=wit)
            for label, e in c['ensures']:
                try:
                    ok = common.eval_clause(e, env, old_env, extra=extra)
                except Exception as ex:
                    ok, e = False, f'{e} [raised {type(ex).__name__}: {ex}]'
                if not ok:
                    h.fail(f'prior_combinations_sample.ensures.{label}', wit, f'clause false: {e}; result={res}',
                           obligations=[f'core_ranking.prior_combinations_sample/ensures.{label}'])
            if not use_other:
                for x in res:
                    selected[x] += 1
            else:
                for x in res:
                    selected_other[x] = selected_other.get(x, 0) + 1
            # candidates that appear later than others still start from zero: reported count == number of selections
            if not arbitrary and any(CR.GLOBAL_PRIOR_COMB_COUNTS[x] != selected_other.get(x, 0) for x in other if x in CR.GLOBAL_PRIOR_COMB_COUNTS):
                h.fail('history.count_is_selection', wit, f'late candidates: {{x: CR.GLOBAL_PRIOR_COMB_COUNTS[x] for x in other}} vs selections {selected_other}'.replace('{{', '{').replace('}}', '}'))
            # history-level statement: counts of a stable duplicate-free list differ by at most one,
            # exactly min(cap, n) distinct candidates per batch, reported counts == number of selections
            cnts = [CR.GLOBAL_PRIOR_COMB_COUNTS[x] for x in L]
            if not arbitrary and max(cnts) - min(cnts) > 1:
                h.fail('history.fair', wit, f'counts {cnts}')
            if not use_other and (len(res) != min(cap, len(L)) or len(set(res)) != len(res)):
                h.fail('history.exactly_cap_distinct', wit, f'result {res}')
            if not arbitrary and any(CR.GLOBAL_PRIOR_COMB_COUNTS[x] != selected[x] for x in L):
                h.fail('history.count_is_selection', wit, f'{dict(CR.GLOBAL_PRIOR_COMB_COUNTS)} vs {selected}')
    # ---- one call on a very large candidate list: exactly min(cap, n) candidates whatever the cap is (no hidden limit)
    CR.GLOBAL_PRIOR_COMB_COUNTS.clear()
    bigL = [(f'a{i}', f'b{i}') for i in range(12000)]
    for cap_ in (11000, 12000, 20000):
        res_ = CR.prior_combinations_sample(list(bigL), make_args(combination_number_upper_bound=cap_, target_ranking_only='False'))
        h.record(('big', cap_), True)
        if len(res_) != min(cap_, len(bigL)) or len(set(res_)) != len(res_):
            h.fail('prior_combinations_sample.ensures.len', {'candidates': len(bigL), 'cap': cap_}, f'{len(res_)} candidates returned, expected {min(cap_, len(bigL))}',
                   obligations=['core_ranking.prior_combinations_sample/ensures.len'])
    # ---- in the rank graph with a reference model (prior heuristic): the cap is spent on candidates that are really scored,
    #      and the reported counts are the numbers of times a pair was scored
    import json as _json
    import pandas as pd
    from rank_common import InlinePool, Pbar
    real_est = CR.get_importances_estimate_pairwise
    scored = []

    def cheap(combination, reference_model_features, args, tmp_df):
        scored.append(tuple(combination))
        return [combination[0], combination[1], 0.5]
    CR.get_importances_estimate_pairwise = cheap
    try:
        with tempfile.TemporaryDirectory(dir=os.getcwd()) as d:
            ref = os.path.join(d, 'reference.json')
            with open(ref, 'w') as fh:
                _json.dump({'desc': {'features': ['f0', 'f1'], 'fields': []}}, fh)
            CR.GLOBAL_PRIOR_COMB_COUNTS.clear()
            cols_ = ['f0', 'f1', 'f2', 'f3', 'f4', 'label']
            tally = Counter()
            for batch, cap_ in enumerate((4, 4, 3, 20, 2)):
                args_ = make_args(heuristic='surrogate-SGD', reference_model_JSON=ref, target_ranking_only='True', combination_number_upper_bound=cap_)
                df_ = pd.DataFrame({c_: rng.integers(0, 3, 25).astype(str) for c_ in cols_})
                del scored[:]
                CR.mixed_rank_graph(df_, args_, InlinePool(), Pbar())
                eligible = [c_ for c_ in cols_ if c_ not in ('f0', 'f1')]
                h.record(('refmodel', batch), True)
                wit_ = {'columns': cols_, 'reference_model_features': ['f0', 'f1'], 'cap': cap_, 'batch': batch + 1}
                if len(set(scored)) != min(cap_, len(eligible)) or any(a in ('f0', 'f1') or b in ('f0', 'f1') for a, b in scored):
                    h.fail('mixed_rank_graph.cap_is_spent_on_scored_candidates', wit_, f'{len(set(scored))} distinct pairs scored: {sorted(set(scored))}; eligible {len(eligible)}')
                tally.update(set(scored))
                if any(CR.GLOBAL_PRIOR_COMB_COUNTS[k_] != tally[k_] for k_ in set(tally) | set(CR.GLOBAL_PRIOR_COMB_COUNTS)):
                    h.fail('mixed_rank_graph.reported_counts_equal_scored', wit_, f'counts {dict(CR.GLOBAL_PRIOR_COMB_COUNTS)} vs scored {dict(tally)}')
    finally:
        CR.get_importances_estimate_pairwise = real_est
    # ---- the export: combination_estimation_counts.json of a real CLI run equals the number of batches each pair was evaluated in
    rows = [[str(int(v)) for v in rng.integers(0, 3, 4)] + [str(int(rng.integers(0, 2)))] for _ in range(3 * 1100 + 1100 + 30)]
    with tempfile.TemporaryDirectory(dir=os.getcwd()) as d:
        e2e.write_csv(d, ['f0', 'f1', 'f2', 'f3', 'label'], rows)
        cap, nb = 3, 3          # two full batches of 1650 rows ... computed below
        B = 1650
        res = e2e.run_cli(d, {'task': 'ranking', 'heuristic': 'MI-numba-randomized', 'minibatch_size': B, 'subsampling': 1, 'num_threads': 1,
                              'combination_number_upper_bound': cap, 'target_ranking_only': 'True'})
        h.record(('export',), True)
        n_batches = len(rows) // B + (1 if len(rows) % B > 1024 else 0)
        js = res['files'].get('combination_estimation_counts.json')
        wit = {'rows': len(rows), 'minibatch_size': B, 'cap': cap, 'batches_ranked': n_batches}
        if res['rc'] != 0 or js is None:
            h.fail('export.cli_completes', wit, f"rc={res['rc']} {res['stderr'][-300:]}")
        else:
            counts = json.loads(js)
            vals = list(counts.values())
            if sum(vals) != cap * n_batches or (vals and max(vals) - min(vals) > 1) or len(vals) != 5:
                h.fail('export.reported_counts_equal_selections', dict(wit, exported=counts),
                       f'exported counts sum to {sum(vals)}, expected cap * batches = {cap * n_batches} over 5 label pairs differing by at most one')
    h.bounded_note('combination_estimation_counts.json of a real CLI run (2 full batches + a tail above 1024 rows)', '1 run, cap 3 of 5 pairs', 1)
    h.bounded_note('fairness / exact-cap / count==selections over random histories on the real function (caps change '
                   'between batches, caps larger than the list, interleaved calls on a disjoint list)',
                   f'{n_hist} histories, lists of 1..8 candidates, up to 11 batches', h.evaluations)
    return h.finish()


if __name__ == '__main__':
    sys.exit(common.run_main(main))
