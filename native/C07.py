"""C07 native: executable contract of prior_combinations_sample + history-level fairness on the real function."""
import copy
import itertools
import sys
from types import SimpleNamespace

import numpy as np

import common
from common import Harness
from rank_common import make_args


def main():
    h = Harness('C07')
    import outrank.core_ranking as CR
    rng = np.random.default_rng(700 + h.seed)
    quick = h.tier == 'quick'
    c = h.reg['prior_combinations_sample']
    n_hist = 150 if quick else 2000
    for hist in range(n_hist):
        CR.GLOBAL_PRIOR_COMB_COUNTS.clear()
        n = int(rng.integers(1, 9))
        names = ['label'] + [f'f{i}' for i in range(n + 1)]      # some candidates contain the label column, some do not
        universe = list(itertools.combinations(names, 2))
        rng.shuffle(universe)
        L = [tuple(x) for x in universe[:n]]
        other = [tuple(x) for x in universe[n:n + 3]]
        selected = {x: 0 for x in L}
        # the contract holds for every counter state: half of the histories start from an arbitrary one
        arbitrary = hist % 2 == 1
        if arbitrary:
            for x in L + other:
                if rng.random() < 0.7:
                    CR.GLOBAL_PRIOR_COMB_COUNTS[x] = int(rng.integers(0, 5))
        steps = int(rng.integers(1, 12))
        for step in range(steps):
            cap = int(rng.integers(0, n + 3))
            args = make_args(combination_number_upper_bound=cap, target_ranking_only='False')
            use_other = rng.random() < 0.15
            comb = list(other) if use_other else list(L)
            env = {'combinations': comb, 'args': args, 'GLOBAL_PRIOR_COMB_COUNTS': CR.GLOBAL_PRIOR_COMB_COUNTS}
            old_env = {'combinations': list(comb), 'args': args,
                       'GLOBAL_PRIOR_COMB_COUNTS': copy.deepcopy(CR.GLOBAL_PRIOR_COMB_COUNTS)}
            dom = set(universe)
            extra = {'forall': (lambda f, *k: all(f(x) for x in dom))}
            res = CR.prior_combinations_sample(comb, args)
            env['result'] = res
            wit = {'history': hist, 'step': step, 'arbitrary_initial_counts': arbitrary, 'L': L, 'cap': cap, 'list': comb,
                   'counts_before': dict(old_env['GLOBAL_PRIOR_COMB_COUNTS'])}
            h.record(('c07', hist, step), cap < len(comb) and len(comb) > 1, sample=wit)
            for label, e in c['ensures']:
                try:
                    ok = common.eval_clause(e, env, old_env, extra=extra)
                except Exception as ex:
                    ok, e = False, f'{e} [raised {type(ex).__name__}: {ex}]'
                if not ok:
                    h.fail(f'prior_combinations_sample.ensures.{label}', wit, f'clause false: {e}; result={res}',
                           obligations=[f'core_ranking.prior_combinations_sample/ensures.{label}'])
            if not use_other:
                for x in res:
                    selected[x] += 1
            # history-level statement: counts of a stable duplicate-free list differ by at most one,
            # exactly min(cap, n) distinct candidates per batch, reported counts == number of selections
            cnts = [CR.GLOBAL_PRIOR_COMB_COUNTS[x] for x in L]
            if not arbitrary and max(cnts) - min(cnts) > 1:
                h.fail('history.fair', wit, f'counts {cnts}')
            if not use_other and (len(res) != min(cap, len(L)) or len(set(res)) != len(res)):
                h.fail('history.exactly_cap_distinct', wit, f'result {res}')
            if not arbitrary and any(CR.GLOBAL_PRIOR_COMB_COUNTS[x] != selected[x] for x in L):
                h.fail('history.count_is_selection', wit, f'{dict(CR.GLOBAL_PRIOR_COMB_COUNTS)} vs {selected}')
    h.bounded_note('fairness / exact-cap / count==selections over random histories on the real function (caps change '
                   'between batches, caps larger than the list, interleaved calls on a disjoint list)',
                   f'{n_hist} histories, lists of 1..8 candidates, up to 11 batches', h.evaluations)
    return h.finish()


if __name__ == '__main__':
    sys.exit(main())
