"""C10 native (bounded stand-in): the real compute_combined_features on adversarial string frames."""
import itertools
import sys
from types import SimpleNamespace

import numpy as np
import pandas as pd

import common
from common import Harness, approx
from rank_common import Pbar

VALUES = ['', '1', '11', '111', '0', '00', 'a', 'ab', 'b', 'ba', '1:1', ':', '2:', '1:', 'é', '☃', ' ', 'a b', 'AND', ' AND ', '-', '1-', '-1', 'nan', 'a ', ' a', 'A', '01', '1.0']


def partition(seq):
    first = {}
    return [first.setdefault(v, i) for i, v in enumerate(seq)]


def main():
    h = Harness('C10')
    import outrank.core_ranking as CR
    from outrank.algorithms.importance_estimator import numba_mi
    rng = np.random.default_rng(1000 + h.seed)
    quick = h.tier == 'quick'

    def run(df, order, cap, is_3mr=False):
        CR.GLOBAL_PRIOR_COMB_COUNTS.clear()
        args = SimpleNamespace(label_column='label', interaction_order=order, combination_number_upper_bound=cap,
                               heuristic='MI-numba-randomized', reference_model_JSON='')
        return CR.compute_combined_features(df, args, Pbar(), is_3mr=is_3mr)

    def check(df, order, cap, is_3mr=False, tag=''):
        before = df.copy(deep=True)
        cols = [c for c in df.columns if c != 'label']
        wit = {'columns': list(df.columns), 'rows': df.values.tolist(), 'interaction_order': order, 'combination_number_upper_bound': cap, 'is_3mr': is_3mr}
        try:
            out = run(df, order, cap, is_3mr)
        except Exception as e:
            h.fail('compute_combined_features.no_raise', wit, f'{type(e).__name__}: {e}')
            return
        k = 2 if is_3mr else order
        join = ' AND_REL ' if is_3mr else ' AND '
        space = list(itertools.combinations(cols, k)) if order > 1 else []
        new = list(out.columns[len(before.columns):])
        h.record(('c10', tag, order, cap, is_3mr, df.shape, hash(str(wit['rows']))), len(new) > 0, sample=wit)
        if list(out.columns[:len(before.columns)]) != list(before.columns) or not df.equals(before) \
                or not out[list(before.columns)].equals(before) or len(out) != len(before):
            h.fail('original_columns_untouched', wit, 'original columns / values / row order changed')
        names = {join.join(c): c for c in space}
        if len(new) != min(cap, len(space)) or len(set(new)) != len(new) or any(n not in names for n in new):
            h.fail('names_are_joined_constituents_of_the_candidate_space', wit, f'new columns {new}; candidates {len(space)} cap {cap}')
            return
        for n in new:
            vals_ = out[n].tolist()
            if any(not (isinstance(v, str) and len(v) == 16 and all(ch in '0123456789abcdef' for ch in v)) for v in vals_[:50]):
                h.fail('combine_features.values_are_64_bit_digests', dict(wit, column=n), f'e.g. {vals_[:2]} (the statement allows 64-bit hash collisions only)')
            comb = names[n]
            tuples = list(zip(*[before[c].tolist() for c in comb]))
            col = out[n].tolist()
            if len(col) != len(before):
                h.fail('combine_features.ensures.one_value_per_row', dict(wit, column=n), f'{len(col)} values for {len(before)} rows',
                       obligations=['core_ranking.compute_combined_features.combine_features/ensures.one_value_per_row'])
                continue
            if partition(col) != partition(tuples):
                bad = [(i, j) for i in range(len(col)) for j in range(i) if (col[i] == col[j]) != (tuples[i] == tuples[j])][:1]
                h.fail('combine_features.ensures.faithful', dict(wit, column=n, rows_ij=bad),
                       f'rows {bad}: constituents {[tuples[i] for i in bad[0]] if bad else None}, interaction values {[col[i] for i in bad[0]] if bad else None}',
                       obligations=['core_ranking.compute_combined_features.combine_features/ensures.faithful'])
                continue
            lab = np.array(partition(before['label'].tolist()), dtype=np.int32)
            s1 = numba_mi(np.array(partition(col), dtype=np.int32), lab, 'MI-numba-randomized', 1.0)
            s2 = numba_mi(np.array(partition(tuples), dtype=np.int32), lab, 'MI-numba-randomized', 1.0)
            if not approx(s1, s2, 1e-6):
                h.fail('score_equals_score_of_value_tuple', dict(wit, column=n), f'{s1} vs {s2}')

    # 1. small-scope: every pair of rows over adversarial value pairs, order 2 (prefix / suffix aliasing)
    adv = VALUES[:14] if quick else VALUES
    for a, b, c, d in itertools.product(adv, repeat=4) if not quick else (tuple(rng.choice(adv, 4)) for _ in range(150)):
        df = pd.DataFrame({'x': [a, c], 'y': [b, d], 'label': ['0', '1']})
        check(df, 2, 10, tag='pairs')
    # the canonical aliasing families, always
    fam = []
    for sep in ['-', '_', ':', ',', '|', ' ', '\x00', '\x1f', '\t', ';', '/', '#']:
        fam.append(('a' + sep, 'b', 'a', sep + 'b'))                   # separator-joined encodings
        fam.append(('a' + sep + 'b', 'c', 'a', 'b' + sep + 'c'))
    for x in ['x', '7', ':']:
        fam.append(('1', x * 9 + '0', '10' + x * 9, ''))               # length prefix without a separator: "1"+"1"+"10"+b == "11"+a'+"0"
        fam.append(('1', x * 9 + '0:', '10' + x * 9, ''))
        fam.append((x * 9 + '1', '', x * 8, x + '1'))
        fam.append(('1' + x, '1', '1', x + '1'))
    for a, b, c, d in fam:
        check(pd.DataFrame({'x': [a, c, a], 'y': [b, d, b], 'label': ['0', '1', '0']}), 2, 10, tag='alias-family')
    for a, b, c, d in [('1', '11', '11', '1'), ('', 'ab', 'a', 'b'), ('a', '', '', 'a'), ('1:1', '1', '1', '1:1'), ('2:', 'a', '2', ':a'),
                       ('12', '3', '1', '23'), ('é', 'é', 'éé', ''), ('1', '1:1', '1:1', '1')]:
        check(pd.DataFrame({'x': [a, c, a], 'y': [b, d, b], 'label': ['0', '1', '0']}), 2, 10, tag='alias')
        check(pd.DataFrame({'x': [a, c, a], 'y': [b, d, b], 'label': ['0', '1', '0']}), 2, 10, is_3mr=True, tag='alias3mr')
    # values that are canonically equivalent under Unicode normalisation but different strings (composed / decomposed accents,
    # ANGSTROM SIGN vs A WITH RING, ligature vs letters, full-width digits) are different values
    equiv = ['\u00e9', 'e\u0301', '\u212b', '\u00c5', 'A\u030a', '\ufb01', 'fi', '\uff11', '1']
    for order in (2, 3):
        dfe = pd.DataFrame({'x': equiv, 'y': ['k'] * len(equiv), 'z': equiv[::-1], 'label': [str(i % 2) for i in range(len(equiv))]})
        check(dfe, order, 1000, tag='unicode-equivalents')
    check(pd.DataFrame({'x': equiv, 'y': ['k'] * len(equiv), 'label': [str(i % 2) for i in range(len(equiv))]}), 2, 10, is_3mr=True,
          tag='unicode-equivalents-3mr')
    # 2. random frames, orders 2..4, caps
    for case in range(25 if quick else 300):
        ncols = int(rng.integers(2, 6))
        n = int(rng.integers(2, 12))
        vals = list(rng.choice(VALUES, size=int(rng.integers(2, 6)), replace=False))
        df = pd.DataFrame({f'f{i}': [str(rng.choice(vals)) for _ in range(n)] for i in range(ncols)})
        # the label column sits anywhere in the frame (first, in the middle, last)
        df.insert(int(rng.integers(0, ncols + 1)), 'label', [str(rng.integers(0, 2)) for _ in range(n)])
        for order in (2, 3, 4):
            if order > ncols:
                # no candidate at all: the frame comes back unchanged (all rows, no new column)
                check(df, order, 1000, tag='order-exceeds-columns')
                continue
            for cap in (1, 3, 1000):
                check(df, order, cap, tag='random')
            if case % 4 == 0:
                # rows keep their identity whatever the frame's row labels are (a shuffled / filtered frame)
                dfi = df.copy()
                dfi.index = rng.permutation(len(df)) * 2 + 1
                check(dfi, order, 1000, tag='row-labels')
    # ---- consecutive calls in one process with a binding cap (the fair sampler rotates through the candidates): every
    #      interaction column still carries the joint values of the constituents in ITS name
    CR.GLOBAL_PRIOR_COMB_COUNTS.clear()
    for batch in range(4):
        n = 12
        dfc = pd.DataFrame({f'f{i}': [str(rng.choice(['1', '11', 'a', ''])) for _ in range(n)] for i in range(4)})
        dfc['label'] = [str(rng.integers(0, 2)) for _ in range(n)]
        args_c = SimpleNamespace(label_column='label', interaction_order=2, combination_number_upper_bound=4, heuristic='MI-numba-randomized', reference_model_JSON='')
        outc = CR.compute_combined_features(dfc, args_c, Pbar())
        h.record(('consecutive', batch), True)
        for name in [c for c in outc.columns if ' AND ' in c]:
            comb = name.split(' AND ')
            tuples = list(zip(*[dfc[c].tolist() for c in comb]))
            if partition(outc[name].tolist()) != partition(tuples):
                h.fail('combine_features.ensures.faithful', {'call': batch + 1, 'cap': 4, 'candidates': 6, 'column': name, 'rows': dfc.values.tolist()},
                       'the column does not follow the joint values of the constituents in its name',
                       obligations=['core_ranking.compute_combined_features/ensures.every_new_column_is_a_faithful_interaction'])
                break
    # ---- scale: 2*10^5 distinct digit-id pairs must give 2*10^5 distinct interaction values (a 32-bit digest would collide)
    big_n = 200000
    ids = rng.permutation(big_n)
    big = pd.DataFrame({'user': [str(int(v)) for v in ids], 'campaign': [str(int(v) % 977) for v in ids], 'label': ['0', '1'] * (big_n // 2)})
    outb = run(big, 2, 10)
    h.record(('scale', big_n), True)
    nd = outb['user AND campaign'].nunique() if 'user AND campaign' in outb.columns else -1
    if nd != big_n:
        h.fail('combine_features.ensures.faithful', {'rows': big_n, 'shape': 'all (user, campaign) pairs distinct'},
               f'{nd} distinct interaction values for {big_n} distinct value tuples', obligations=['core_ranking.compute_combined_features.combine_features/ensures.faithful'])
    h.bounded_note('2*10^5 distinct value tuples give 2*10^5 distinct interaction values', '1 frame', 1)
    h.bounded_note('compute_combined_features: names, candidate space under the cap, faithfulness, originals untouched, score equality',
                   f'2-row frames over {len(adv)} adversarial values (order 2), aliasing families, random frames with 2-5 columns x 2-11 rows x orders 2-4 x caps 1/3/1000',
                   h.evaluations)
    return h.finish()


if __name__ == '__main__':
    sys.exit(common.run_main(main))
