"""Executable contracts for the mutual-information estimator chain (C01-C04) on the real numba code."""
from __future__ import annotations

import itertools
import math

import numpy as np

import common
import mi_common as M
from common import Harness, approx, cnt


def poison_heap(sizes):
    """Leave non-zero garbage in freed blocks so that reads of uninitialised np.empty cells are observable."""
    junk = []
    for s in sizes:
        for _ in range(4):
            a = np.full(max(1, s), 1.0e9 + 12345.0, dtype=np.float64)
            junk.append(a)
    del junk


def main(pid):
    h = Harness(pid)
    from outrank.algorithms.feature_ranking import ranking_mi_numba as R
    rng = np.random.default_rng(1000 + h.seed)
    quick = h.tier == 'quick'

    def pairs():
        nmax = 4 if quick else 5
        if pid == 'C04':
            # every pair is evaluated under several ratios (sub-sampler and estimator): keep the exhaustive part smaller
            nmax = 3 if quick else 4
            for n in ((4, 5) if quick else (5, 6)):
                for t in itertools.product(range(2), repeat=2 * n):
                    yield np.array(t[:n], dtype=np.int32), np.array(t[n:], dtype=np.int32)
        for n in range(1, nmax + 1):
            for t in itertools.product(range(3), repeat=2 * n):
                yield np.array(t[:n], dtype=np.int32), np.array(t[n:], dtype=np.int32)
        # seeded larger inputs: singleton strata, all-distinct, constant, skewed
        for _ in range(40 if quick else 400):
            n = int(rng.integers(2, 60))
            kx, ky = int(rng.integers(1, n + 1)), int(rng.integers(1, n + 1))
            X = rng.integers(0, kx, n).astype(np.int32)
            Y = rng.integers(0, ky, n).astype(np.int32)
            mode = int(rng.integers(0, 6))
            if mode == 0:
                Y = np.arange(n, dtype=np.int32)
            elif mode == 1:
                X = np.zeros(n, dtype=np.int32)
            elif mode == 2:
                Y = X.copy()
            elif mode == 3:
                X = (rng.random(n) < 0.05).astype(np.int32)
            elif mode == 4:
                # same histogram / same code sum, different vectors
                Y = np.array(rng.permutation(X), dtype=np.int32)
            yield Y, X * int(rng.integers(1, 4)) + int(rng.integers(0, 5))
        if pid == 'C04':
            # lengths at which ratio * n sits just below an integer for a float32 ratio (0.7 * 10, 0.9 * 10, 0.7 * 1000, ...)
            for n in (10, 20, 30, 40, 100):
                for k in (2, 3, 7):
                    X = (np.arange(n) % k).astype(np.int32)
                    yield rng.integers(0, 3, n).astype(np.int32), rng.permutation(X).astype(np.int32)

    def estimator_inputs(ratios, flags):
        for Y, X in pairs():
            for r in ratios:
                for c in flags:
                    yield dict(Y=Y, X=X, approximation_factor=float(np.float32(r)), cardinality_correction=c)

    def long_prefix_pairs():
        # different vectors that agree on a long prefix / suffix / every other row (the self-pair test is element-wise on whole vectors)
        n = 3000
        X = rng.integers(0, 4, n).astype(np.int32)
        for kind in ('prefix', 'suffix', 'all but one'):
            Y = X.copy()
            if kind == 'prefix':
                Y[2500:] = (X[2500:] + 1) % 4
            elif kind == 'suffix':
                Y[:300] = (X[:300] + 1) % 4
            else:
                Y[1700] = (X[1700] + 1) % 4
            for c_ in (True, False):
                yield dict(Y=Y, X=X, approximation_factor=1.0, cardinality_correction=c_)

    def call_est(Y, X, approximation_factor, cardinality_correction):
        if approximation_factor < 1:
            h.guard({'function': 'mutual_info_estimator_numba', 'Y': Y, 'X': X, 'r': approximation_factor,
                     'c': cardinality_correction})
            poison_heap([int(approximation_factor * len(X))])
        return float(R.mutual_info_estimator_numba(Y.copy(), X.copy(), np.float32(approximation_factor),
                                                   cardinality_correction))

    def ghosts_for(inp):
        Y, X, r, c = inp['Y'], inp['X'], inp['approximation_factor'], inp['cardinality_correction']
        fv, fc = M.support(X)
        eff = bool(c and not all(X[i] == Y[i] for i in range(len(X))))
        if r < 1:
            sy, sx, q = M.sample_spec(Y, X, r, fv)
        else:
            sy, sx, q = Y, X, 0
        cv, cc = M.support(sy)
        return dict(g_fv=fv, g_fc=fc, g_eff=eff, g_sx=sx, g_sy=sy, g_cv=cv, g_cc=cc, g_q=q)

    class Est:
        pass

    def check_estimator(ratios, flags, labels, classify=None, inputs=None):
        c = h.reg['mutual_info_estimator_numba']
        for inp in (inputs if inputs is not None else estimator_inputs(ratios, flags)):
            env = dict(inp)
            if not all(common.eval_clause(e, env) for _, e in c['requires']):
                continue
            try:
                res = call_est(**inp)
            except Exception as e:
                h.record(('est', common._key(inp)))
                h.fail('mutual_info_estimator_numba.no_raise', inp, f'{type(e).__name__}: {e}')
                continue
            env.update(ghosts_for(inp))
            env['result'] = res
            nontrivial = len(set(inp['X'].tolist())) > 1 and len(set(inp['Y'].tolist())) > 1
            h.record(('est', common._key(inp)), nontrivial, sample={'function': 'mutual_info_estimator_numba', 'input': inp, 'result': res})
            if not math.isfinite(res):
                h.fail('mutual_info_estimator_numba.finite', inp, f'result {res}')
                continue
            if inp['approximation_factor'] < 1:
                again = call_est(**inp)
                if again != res and not (math.isnan(again) and math.isnan(res)):
                    h.fail('mutual_info_estimator_numba.deterministic', inp, f'{res} then {again}')
            for label, e in c['ensures']:
                if label not in labels:
                    continue
                try:
                    ok = common.eval_clause(e, env, inp)
                except Exception as ex:
                    ok, e = False, f'{e} [raised {type(ex).__name__}: {ex}]'
                if not ok:
                    h.fail(f'mutual_info_estimator_numba.ensures.{label}', inp, f'clause false; result={res}',
                           witness_class=classify(inp) if classify else None,
                           obligations=[f'ranking_mi_numba.mutual_info_estimator_numba/ensures.{label}'])

    if pid in ('C01', 'C02', 'C03'):
        # numba_unique / compute_conditional_entropy / compute_entropies against their own contracts
        h.check_contract('numba_unique', lambda a: R.numba_unique(a),
                         ({'a': a} for a in common.small_int_arrays(4 if quick else 6, 3)))

        # the same contract on sparse / offset codes anywhere in [0, 2^20) (the quantifier of the executable clause is cut at CODE_BOUND)
        for k_ in range(60 if quick else 600):
            n_ = int(rng.integers(1, 60))
            a_ = rng.choice(np.array([0, 1, 5, 1023, 1024, 4 * n_ + 1024, 4 * n_ + 1025, 2 ** 16, 2 ** 20 - 1] + rng.integers(0, 2 ** 20, 4).tolist()),
                            size=n_).astype(np.int32)
            if k_ % 3 == 0:
                a_ = (a_ % 7 + int(rng.integers(0, 2 ** 20 - 7))).astype(np.int32)       # dense block at a large offset
            vals_, cnts_ = R.numba_unique(a_)
            ev_, ec_ = np.unique(a_, return_counts=True)
            h.record(('unique-sparse', k_), True)
            if not (np.array_equal(np.asarray(vals_), ev_) and np.array_equal(np.asarray(cnts_), ec_)):
                h.fail('numba_unique.ensures.counts', {'a': a_}, f'values {np.asarray(vals_).tolist()[:12]} counts {np.asarray(cnts_).tolist()[:12]}; '
                       f'expected {ev_.tolist()[:12]} / {ec_.tolist()[:12]}', obligations=['ranking_mi_numba.numba_unique/ensures.counts'])

        def ce_inputs():
            for Y, X in pairs():
                fv, fc = M.support(X)
                for c in (False, True):
                    yield dict(X=X, Y=Y, all_events=len(X), f_values=fv, f_value_counts=fc, cardinality_correction=c)

        def call_ce(**kw):
            return float(R.compute_entropies(*[kw[k] for k in ('X', 'Y', 'all_events', 'f_values', 'f_value_counts',
                                                               'cardinality_correction')]))
        c = h.reg['compute_entropies']
        for inp in ce_inputs():
            env = dict(inp)
            res = call_ce(**inp)
            cv, cc = M.support(inp['Y'])
            env.update(g_cv=cv, g_cc=cc, result=res)
            h.record(('ce', common._key(inp)), True)
            for label, e in c['ensures']:
                if not common.eval_clause(e, env, inp):
                    h.fail(f'compute_entropies.ensures.{label}', inp, f'clause false; result={res}',
                           obligations=[f'ranking_mi_numba.compute_entropies/ensures.{label}'])

    if pid == 'C01':
        check_estimator([1.0], [False], {'x_support', 'y_support', 'unsampled', 'plugin_mi'})
        # the spec itself against an independent double-sum plug-in MI, and the listed consequences
        n_ref = 0
        for Y, X in pairs():
            fv, fc = M.support(X)
            cv, cc = M.support(Y)
            spec = M.entsum_spec(cc, len(X), len(cv)) - M.condsum_ns(X, Y, fv, fc, len(X), cv, len(fv))
            ref = M.plugin_mi_reference(Y, X)
            n_ref += 1
            if not approx(spec, ref, 1e-9):
                h.fail('spec.equals_double_sum_plugin_mi', {'Y': Y, 'X': X}, f'spec {spec} vs reference {ref}')
            real = float(R.mutual_info_estimator_numba(Y, X, np.float32(1.0), False))
            sym = float(R.mutual_info_estimator_numba(X, Y, np.float32(1.0), False))
            hy, hx = M.entropy_reference(Y), M.entropy_reference(X)
            if not approx(real, sym):
                h.fail('consequence.symmetric', {'Y': Y, 'X': X}, f'{real} vs {sym}')
            if real < -1e-5 or real > min(hx, hy) + 1e-4:
                h.fail('consequence.bounds', {'Y': Y, 'X': X}, f'{real} not in [0, min(H)]={min(hx, hy)}')
            if (len(set(Y.tolist())) == 1 or len(set(X.tolist())) == 1) and abs(real) > 1e-5:
                h.fail('consequence.zero_when_constant', {'Y': Y, 'X': X}, f'{real}')
            self_score = float(R.mutual_info_estimator_numba(Y, Y.copy(), np.float32(1.0), False))
            if not approx(self_score, hy):
                h.fail('consequence.self_equals_entropy', {'Y': Y}, f'{self_score} vs {hy}')
        h.bounded_note('spec consistency: conditional-entropy form == double-sum plug-in MI; symmetry, bounds, '
                       'zero-when-constant, self=entropy on the real estimator (float32 rounding tolerance 1e-4)',
                       'all pairs of length <= %d over 3 codes + seeded pairs up to n=60' % (4 if quick else 5), n_ref)
        # scale: heavily skewed marginals at n = 2*10^5 (many once-only classes next to a few dominant ones), both orientations
        n = 200000
        Yb = rng.integers(0, 3, n).astype(np.int32)
        Yb[rng.choice(n, 2000, replace=False)] = np.arange(10, 2010, dtype=np.int32)
        Xb = ((Yb % 3) + rng.integers(0, 2, n)).astype(np.int32)
        for A, B, tag in ((Yb, Xb, 'rare classes in the first argument'), (Xb, Yb, 'rare classes in the second argument')):
            real = float(R.mutual_info_estimator_numba(A, B, np.float32(1.0), False))
            ref = M.plugin_mi_reference(A, B)
            h.record(('skewed', tag), True)
            if not approx(real, ref, 1e-3):
                h.fail('mutual_info_estimator_numba.ensures.plugin_mi', {'n': n, 'shape': '3 dominant codes + 2000 codes that occur once', 'orientation': tag,
                                                                         'seed': h.seed}, f'{real} vs plug-in MI {ref}')
        h.bounded_note('plug-in MI at n = 2*10^5 with 2000 once-only classes (float32 tolerance 1e-3)', 'one seeded input, both orientations', 2)
        # more than 2^16 distinct codes in the first argument (code tables indexed by narrow integers would pool classes)
        n = 70000
        Yd = rng.permutation(n).astype(np.int32)
        Xd = (np.arange(n) % 3).astype(np.int32)
        real = float(R.mutual_info_estimator_numba(Yd, Xd, np.float32(1.0), False))
        ref = M.plugin_mi_reference(Yd, Xd)
        h.record(('distinct70000',), True)
        if not approx(real, ref, 1e-3):
            h.fail('mutual_info_estimator_numba.ensures.plugin_mi', {'n': n, 'shape': 'all-distinct first argument (70000 codes) against 3 strata', 'seed': h.seed},
                   f'{real} vs plug-in MI {ref}')
        if not quick:
            n = 10 ** 6
            Y = rng.integers(0, 1000, n).astype(np.int32)
            X = (Y % 7 + rng.integers(0, 2, n)).astype(np.int32)
            real = float(R.mutual_info_estimator_numba(Y, X, np.float32(1.0), False))
            import collections
            ref = M.plugin_mi_reference(Y, X)
            h.record(('big', n), True)
            if not approx(real, ref, 1e-3):
                h.fail('rounding.n_1e6', {'n': n, 'seed': h.seed}, f'{real} vs {ref}')
            h.bounded_note('float32 rounding at n = 10^6', 'one seeded input', 1)

    if pid == 'C02':
        def cls(inp):
            X, Y = inp['X'], inp['Y']
            return 'selfpair_equal_sum' if int(np.sum(X - Y)) == 0 and not np.array_equal(X, Y) else None
        check_estimator([1.0], [False, True], {'selfpair', 'plugin_mi', 'corrected'}, classify=cls)

        def almost_self_pairs():
            # different vectors that agree on every row the sub-sampler keeps: still NOT a self pair (the test is on whole vectors)
            for Y0, X in pairs():
                fv, _ = M.support(X)
                for r in (0.5, 0.8):
                    _, _, q = M.sample_spec(X, X, r, fv)
                    if q == 0:
                        continue
                    sampled = set()
                    for f in fv:
                        sampled.update(M.where_idx(X, f)[:q])
                    outside = [i for i in range(len(X)) if i not in sampled]
                    if not outside:
                        continue
                    Y = X.copy()
                    for i in outside[:max(1, len(outside) // 2)]:
                        Y[i] = X[i] + 1
                    for c_ in (False, True):
                        yield dict(Y=Y, X=X, approximation_factor=float(np.float32(r)), cardinality_correction=c_)
        check_estimator(None, None, {'selfpair', 'sampled'}, classify=cls, inputs=almost_self_pairs())
        check_estimator(None, None, {'selfpair', 'corrected', 'plugin_mi'}, classify=cls, inputs=long_prefix_pairs())
        # relabeling invariance on the real estimator (bounded stand-in for the spec-level lemma)
        n_rel = 0
        for Y, X in pairs():
            for c in (False, True):
                base = float(R.mutual_info_estimator_numba(Y, X, np.float32(1.0), c))
                codes_y, codes_x = sorted(set(Y.tolist())), sorted(set(X.tolist()))
                for trial in range(3):
                    if n_rel % 25 == 7:
                        # sparse codes anywhere in the statement's code range [0, 2^20): offsets, hashed-looking codes
                        def wide(k_):
                            out = set()
                            while len(out) < k_:
                                out.add(int(rng.integers(0, 2 ** 20)))
                            out = list(out)
                            rng.shuffle(out)
                            return out
                        py, px = dict(zip(codes_y, wide(len(codes_y)))), dict(zip(codes_x, wide(len(codes_x))))
                    else:
                        py = dict(zip(codes_y, rng.permutation(100)[:len(codes_y)].tolist()))
                        px = dict(zip(codes_x, rng.permutation(100)[:len(codes_x)].tolist()))
                    Y2 = np.array([py[v] for v in Y.tolist()], dtype=np.int32)
                    X2 = np.array([px[v] for v in X.tolist()], dtype=np.int32)
                    got = float(R.mutual_info_estimator_numba(Y2, X2, np.float32(1.0), c))
                    n_rel += 1
                    ident = np.array_equal(X, Y)
                    ident2 = np.array_equal(X2, Y2)
                    if ident != ident2:
                        continue      # relabeling both sides differently may create/destroy a self pair: not covered
                    if not approx(got, base):
                        h.fail('relabel_invariant', {'Y': Y, 'X': X, 'Y2': Y2, 'X2': X2, 'c': c}, f'{base} vs {got}',
                               witness_class='selfpair_equal_sum' if (int(np.sum(X - Y)) == 0) != (int(np.sum(X2 - Y2)) == 0) else None)
        # pipeline level: the batch coder must not merge categories (more than 2^15 distinct values in one batch) - an injective
        # renaming of the raw values leaves every emitted score unchanged
        import pandas as pd
        import outrank.core_ranking as CR
        from rank_common import InlinePool, Pbar, make_args
        nb = 40000
        ids = rng.permutation(nb) % 35000
        lab = (ids % 7 < 3).astype(int) ^ (rng.random(nb) < 0.1)
        frame = pd.DataFrame({'id': [f'u{int(v)}' for v in ids], 'label': [str(int(v)) for v in lab]})
        renamed = pd.DataFrame({'id': [f'k{35000 - int(v):06d}' for v in ids], 'label': [('yes' if v else 'no') for v in lab]})
        sc = []
        for fr in (frame, renamed):
            CR.GLOBAL_PRIOR_COMB_COUNTS.clear()
            rows_ = CR.mixed_rank_graph(fr, make_args(heuristic='MI-numba-randomized', target_ranking_only='True'), InlinePool(), Pbar()).triplet_scores
            sc.append({(a, b): float(s_) for a, b, s_ in rows_})
        h.record(('pipeline-relabel', nb), True)
        if set(sc[0]) != set(sc[1]) or any(not approx(sc[0][k_], sc[1][k_], 1e-5) for k_ in sc[0]):
            h.fail('relabel_invariant', {'rows': nb, 'distinct_ids': 35000, 'renaming': 'u<i> -> k<35000-i>, 0/1 -> no/yes'},
                   f'scores before {sc[0]} after renaming {sc[1]}')
        h.bounded_note('injective renaming of the raw values of a 40000-row batch with 35000 distinct ids leaves the emitted scores unchanged', '1 batch', 1)
        h.bounded_note('injective relabeling of both sides leaves the real score unchanged (3 random relabelings per pair)',
                       'pairs as above', n_rel)

    if pid == 'C03':
        check_estimator([1.0], [True], {'selfpair', 'corrected', 'y_support', 'x_support'})
        check_estimator(None, None, {'selfpair', 'corrected'}, inputs=long_prefix_pairs())
        # through numba_mi: a vector scored against itself gets its entropy under the corrected heuristic, whatever its codes are
        import outrank.algorithms.importance_estimator as IE3
        for vals in ([10, 20], [1, 2, 3, 4, 5, 6, 7], [5, 500, 50000], [0, 1, 2]):
            v = rng.choice(np.array(vals, dtype=np.int64), size=120)
            got = float(IE3.numba_mi(v.copy(), v.copy(), 'MI-numba-randomized', 1.0))
            want = M.entropy_reference(v)
            h.record(('selfscore', tuple(vals)), True)
            if not approx(got, want, 1e-4):
                h.fail('numba_mi.self_score_is_entropy', {'values': vals, 'vector': v}, f'{got} vs entropy {want}',
                       obligations=['ranking_mi_numba.mutual_info_estimator_numba/ensures.selfpair'])
        # the corrected statistic on a sub-sample (ratio < 1): same identity, on the sampled rows
        check_estimator([0.5, 0.8], [True], {'sampled'})
        n_cor = 0
        for Y, X in pairs():
            s = float(R.mutual_info_estimator_numba(Y, X, np.float32(1.0), True))
            n_cor += 1
            if len(set(Y.tolist())) == 1 and abs(s) > 1e-5:
                h.fail('corollary.constant_feature_zero', {'Y': Y, 'X': X}, s)
            if len(set(Y.tolist())) == len(Y) and not np.array_equal(X, Y) and abs(s) > 1e-5:
                h.fail('corollary.all_distinct_zero', {'Y': Y, 'X': X}, s)
        h.bounded_note('corollaries: constant feature -> 0, all-distinct feature -> 0 (real estimator)', 'pairs as above', n_cor)
        # ranking corollary (statistical; bounded stand-in, never counted as proved)
        n_seeds = 3 if quick else 25
        n = 4000
        bad = 0
        for sd in range(h.seed, h.seed + n_seeds):
            g2 = np.random.default_rng(sd)
            target = g2.integers(0, 2, n).astype(np.int32)
            flips = g2.random(n) < 0.15
            signal = np.where(flips, 1 - target, target).astype(np.int32)
            s_sig = float(R.mutual_info_estimator_numba(signal, target, np.float32(1.0), True))
            worst = -1e9
            for card in (2, 10, 100, 1000, n):
                noise = g2.integers(0, card, n).astype(np.int32)
                worst = max(worst, float(R.mutual_info_estimator_numba(noise, target, np.float32(1.0), True)))
            h.record(('rank', sd), True)
            if not s_sig > worst:
                bad += 1
                h.fail('corollary.signal_outranks_noise', {'seed': sd, 'n': n}, f'signal {s_sig} <= noise {worst}')
        h.bounded_note('planted signal (15% flips) outranks independent noise of cardinality 2..n under correction',
                       f'{n_seeds} seeds, n=4000', n_seeds)

    if pid == 'C04':
        def sub_inputs():
            for Y, X in pairs():
                fv, _ = M.support(X)
                for r in (0.3, 0.5, 0.7, 0.8, 0.9, 0.99):
                    yield dict(Y=Y, X=X, approximation_factor=float(np.float32(r)), _f_values_X=fv)

        def call_sub(Y, X, approximation_factor, _f_values_X):
            h.guard({'function': 'stratified_subsampling', 'Y': Y, 'X': X, 'r': approximation_factor})
            poison_heap([int(approximation_factor * len(X))])
            ry, rx = R.stratified_subsampling(Y.copy(), X.copy(), np.float32(approximation_factor), _f_values_X)
            return ry, rx
        c = h.reg['stratified_subsampling']
        for inp in sub_inputs():
            env = dict(inp)
            if not all(common.eval_clause(e, env) for _, e in c['requires']):
                continue
            res = call_sub(**inp)
            _, _, q = M.sample_spec(inp['Y'], inp['X'], inp['approximation_factor'], inp['_f_values_X'])
            env.update(result=res, g_q=q)
            h.record(('sub', common._key(inp)), q > 0)
            for label, e in c['ensures']:
                try:
                    ok = common.eval_clause(e, env, inp)
                except Exception as ex:
                    ok, e = False, f'{e} [raised {type(ex).__name__}: {ex}]'
                if not ok:
                    h.fail(f'stratified_subsampling.ensures.{label}', inp, f'clause false: {e}; result={res}',
                           obligations=[f'ranking_mi_numba.stratified_subsampling/ensures.{label}'])
        check_estimator([0.3, 0.5, 0.7, 0.8, 0.9], [False, True], {'sampled', 'x_support', 'y_support'})
        # the ratio reaches the estimator through the ranking entry point for every MI-numba heuristic
        import outrank.algorithms.importance_estimator as IE
        from types import SimpleNamespace
        n_disp = 0
        disp_pairs = []
        for _ in range(30):
            n_ = int(rng.integers(12, 60))
            disp_pairs.append((rng.integers(0, 4, n_).astype(np.int32), rng.integers(0, 3, n_).astype(np.int32)))
        for Y, X in disp_pairs:
            for name, corr in (('MI-numba-randomized', True), ('MI-numba-3mr', False)):
                for r in (0.5, 0.8):
                    args_ = SimpleNamespace(heuristic=name, mi_stratified_sampling_ratio=r)
                    got = float(IE.conduct_feature_ranking(Y.copy(), X.copy(), args_))
                    want = float(R.mutual_info_estimator_numba(Y.copy(), X.copy(), np.float32(r), corr))
                    n_disp += 1
                    h.record(('dispatch_ratio', name, r, common._key({'Y': Y, 'X': X})), True)
                    if not approx(got, want, 1e-6):
                        h.fail('conduct_feature_ranking.passes_the_sampling_ratio', {'Y': Y, 'X': X, 'heuristic': name, 'ratio': r},
                               f'{got} through the ranking entry point, {want} from the estimator with this ratio')
        h.bounded_note('the sampling ratio is forwarded by conduct_feature_ranking / numba_mi for both MI-numba heuristics', '30 pairs x 2 heuristics x 2 ratios', n_disp)
        # sample-only: altering feature values outside the sampled rows does not change the score
        n_so = 0
        for Y, X in pairs():
            fv, _ = M.support(X)
            for r in (0.5, 0.8):
                sy, sx, q = M.sample_spec(Y, X, r, fv)
                if q == 0:
                    continue
                sampled = set()
                for f in fv:
                    sampled.update(M.where_idx(X, f)[:q])
                outside = [i for i in range(len(X)) if i not in sampled]
                if not outside:
                    continue
                for c_ in (False, True):
                    base = call_est(Y, X, float(np.float32(r)), c_)
                    Y2 = Y.copy()
                    for i in outside:
                        Y2[i] = (Y2[i] + 1 + int(rng.integers(0, 3))) % 7
                    if c_ and (np.array_equal(X, Y) != np.array_equal(X, Y2)):
                        continue   # whole-vector self-pair test legitimately reads every row (statement of C02)
                    got = call_est(Y2, X, float(np.float32(r)), c_)
                    n_so += 1
                    if not approx(base, got):
                        h.fail('sample_only', {'Y': Y, 'Y2': Y2, 'X': X, 'r': r, 'c': c_}, f'{base} vs {got}')
        h.bounded_note('score unchanged when rows outside the sample are altered (real estimator, poisoned heap)',
                       'pairs as above x r in {0.5, 0.8}', n_so)
    return h.finish()
