"""C14 native: exact while warm, within 2% beyond (bounded), duplicate-blind, order-independent (real class)."""
import sys

import numpy as np

import common
from common import Harness


def main():
    h = Harness('C14')
    from outrank.algorithms.sketches.counting_ultiloglog import HyperLogLogWCache as HLL
    rng = np.random.default_rng(1400 + h.seed)
    quick = h.tier == 'quick'
    W = 2 ** 18
    # ---- small streams: exact, duplicate-blind, order-independent after every prefix
    for sidx in range(150 if quick else 1500):
        n = int(rng.integers(1, 60))
        vals = [f'k{int(x)}' for x in rng.integers(0, int(rng.integers(1, 40)), n)]
        sk = HLL(0.02)
        seen = set()
        for step, v in enumerate(vals):
            before = len(sk)
            was_seen = v in seen
            sk.add(v)
            seen.add(v)
            h.record(('small', sidx, step), True, sample={'stream': vals[:step + 1]})
            if len(sk) != len(seen):
                h.fail('exact_while_warm', {'stream': vals[:step + 1]}, f'len {len(sk)} != distinct {len(seen)}',
                       obligations=['counting_ultiloglog.HyperLogLogWCache.add/ensures.exact_while_it_fits'])
            if was_seen and len(sk) != before:
                h.fail('duplicate_blind', {'stream': vals[:step + 1]}, f'{before} -> {len(sk)}',
                       obligations=['counting_ultiloglog.HyperLogLogWCache.add/ensures.duplicate_blind_exact'])
        sk2 = HLL(0.02)
        for v in rng.permutation(vals):
            sk2.add(str(v))
        if len(sk2) != len(sk):
            h.fail('order_independent_exact', {'stream': vals}, f'{len(sk)} vs permuted {len(sk2)}')
    # ---- exactness for large warm sets of several string families (any values, not only well-spread ones)
    fams = ['k', 'user_', 'id-'] if quick else ['k', 'user_', 'id-', 'x', 'feature=', '']
    for fam in fams:
        skf = HLL(0.02)
        n_f = W - 1 - int(rng.integers(0, 50))
        for i in range(n_f):
            skf.add(f'{fam}{i}')
        h.record(('family', fam), True, sample={'family': fam, 'distinct': n_f})
        if len(skf) != n_f:
            h.fail('exact_while_warm', {'family': f'{fam}<i>, i < {n_f}', 'distinct': n_f}, f'len {len(skf)} != distinct {n_f}',
                   obligations=['counting_ultiloglog.HyperLogLogWCache.add/ensures.exact_while_it_fits'])
    # ---- the warm-up boundary: exactly 2^18 distinct values, re-adds, then one more
    sk = HLL(0.02)
    base = [f'v{i}' for i in range(W)]
    for i, v in enumerate(base):
        sk.add(v)
        if i % 1000 == 0:
            sk.add(base[i // 2])
    h.record(('boundary', 0), True, sample={'distinct': W, 'note': '2^18 distinct strings v0..v262143 with re-adds'})
    if len(sk) != W or sk.hll_flag:
        h.fail('exact_at_capacity', {'distinct': W}, f'len {len(sk)} flag {sk.hll_flag}')
    for v in ('v5', 'v262143', 'v0'):
        sk.add(v)
        h.record(('boundary', v), True)
        if len(sk) != W:
            h.fail('duplicate_blind_at_capacity', {'distinct': W, 're_added': v}, f'len {len(sk)} after re-adding a seen value',
                   obligations=['counting_ultiloglog.HyperLogLogWCache.add/ensures.exact_while_it_fits',
                                'counting_ultiloglog.HyperLogLogWCache.add/ensures.switch_only_when_full'])
            break
    sk.add('one-more')
    true = W + 1
    est = len(sk)
    h.record(('boundary', 'switch'), True)
    if abs(est - true) > 0.02 * true:
        h.fail('within_2pct_after_switch', {'distinct': true}, f'estimate {est}')
    import xxhash
    hh = xxhash.xxh32(seed=19)
    hh.update(b'one-more')
    x = hh.intdigest()
    if sk.M[x & (sk.m - 1)] == 0:
        h.fail('switching_value_registered', {'distinct': true}, 'the value that triggered the switch is not in the registers',
               obligations=['counting_ultiloglog.HyperLogLogWCache.add/ensures.switch_registers_everything'])
    before = est
    for v in ('one-more', 'v17', 'v262143'):
        sk.add(v)
        if len(sk) != before:
            h.fail('duplicate_blind_registers', {'distinct': true, 're_added': v}, f'{before} -> {len(sk)}',
                   obligations=['counting_ultiloglog.HyperLogLogWCache.add/ensures.duplicate_blind_registers'])
    # ---- accuracy beyond the warm-up (bounded stand-in; the 2% claim depends on the hash distribution)
    targets = [W + 1000, 2 ** 19] if quick else [W + 1000, 2 ** 19, 3 * 2 ** 18, 2 ** 20, 2 ** 21]
    cur = true
    i = 0
    for tgt in targets:
        while cur < tgt:
            sk.add(f'w{i}')
            i += 1
            cur += 1
            if i % 5000 == 0:
                sk.add(f'w{i // 2}')
        est = len(sk)
        h.record(('accuracy', tgt), True, sample={'distinct': tgt, 'estimate': est})
        if abs(est - tgt) > 0.02 * tgt:
            h.fail('within_2pct', {'distinct': tgt, 'family': 'v<i>, one-more, w<i> with interleaved duplicates'}, f'estimate {est}')
    # other input families beyond the warm-up: zero-padded ids, hexadecimal counters, strided ids (values that LOOK like digests)
    for fam_name, fmt in (('%08d', lambda i_: '%08d' % i_), ('%08x', lambda i_: '%08x' % i_), ('%08x stride 2^19', lambda i_: '%08x' % ((i_ * 524288) % 4294967291)),
                          ('long values with a common 90-character prefix', lambda i_: 'https://example.org/' + 'segment/' * 9 + str(i_)),
                          ('long values with a common 90-character suffix', lambda i_: str(i_) + '/tail' * 18),
                          ('non-ASCII values', lambda i_: 'é中' * 3 + str(i_) + 'ü')):
        skx = HLL(0.02)
        n_x = W + (40000 if quick else 300000)
        for i_ in range(n_x):
            skx.add(fmt(i_))
        estx = len(skx)
        h.record(('accuracy-family', fam_name), True, sample={'family': fam_name, 'distinct': n_x, 'estimate': estx})
        if abs(estx - n_x) > 0.02 * n_x:
            h.fail('within_2pct', {'distinct': n_x, 'family': fam_name}, f'estimate {estx}')
    h.bounded_note('|len - distinct| <= 2% on a seeded string family crossing the boundary, with interleaved duplicates',
                   f'up to {targets[-1]} distinct values', len(targets))
    return h.finish()


if __name__ == '__main__':
    sys.exit(common.run_main(main))
