"""Executable contracts on the real code (runs under /venv/bin/python, imports the repository at $VERIF_REPO).

The *same* requires/ensures strings that the deductive engine compiles to z3 are evaluated here on concrete
values, with the native twins of the spec functions.  Used for: replay of witnesses, bounded stand-ins
(small-scope exhaustive / seeded inputs, always labelled bounded), and cross-checking the contracts against
the real functions.  Nothing here is counted as proved.
"""
from __future__ import annotations

import argparse
import ast
import copy
import itertools
import json
import math
import os
import sys
import traceback

VERIF = os.path.dirname(os.path.dirname(os.path.abspath(__file__)))
sys.path.insert(0, VERIF)
REPO = os.environ.get('VERIF_REPO', '/repo')
if REPO not in sys.path:
    sys.path.insert(0, REPO)


# ----------------------------------------------------------------------------- native spec functions

def implies(a, b):
    return (not a) or bool(b)


def iff(a, b):
    return bool(a) == bool(b)


def cnt(A, v, m):
    return sum(1 for i in range(m) if A[i] == v)


def cntT(M, m):
    return sum(1 for i in range(m) if M[i])


def sumI(A, m):
    return sum(int(A[i]) for i in range(m))


def g(p):
    return 0.0 if p == 0 else -p * math.log(p)


def entsum(C, d, k):
    return sum(g(C[t] / d) for t in range(k))


def ite(c, a, b):
    return a if c else b


def min2(a, b):
    return a if a < b else b


def defined(A, i):
    return True


def same_seq(a, b):
    return len(a) == len(b) and all(x == y for x, y in zip(a, b))


def approx(a, b, tol=1e-4):
    return abs(float(a) - float(b)) <= tol * max(1.0, abs(float(a)), abs(float(b)))


NATIVE = dict(CODE_BOUND=64, min2=min2, implies=implies, iff=iff, cnt=cnt, cntT=cntT, sumI=sumI, g=g, entsum=entsum, ite=ite, log=math.log,
              defined=defined, same_seq=same_seq, approx=approx)


class _OldRewriter(ast.NodeTransformer):
    def __init__(self):
        self.olds = []

    def visit_Compare(self, node):
        # floats: `result == <real spec>` is checked up to single-precision rounding natively
        self.generic_visit(node)
        if len(node.ops) == 1 and isinstance(node.ops[0], ast.Eq) and (
                (isinstance(node.left, ast.Name) and node.left.id == 'result')
                or (isinstance(node.comparators[0], ast.Name) and node.comparators[0].id == 'result')):
            return ast.copy_location(ast.Call(func=ast.Name(id='approx_or_eq', ctx=ast.Load()),
                                              args=[node.left, node.comparators[0]], keywords=[]), node)
        return node

    def visit_Call(self, node):
        if isinstance(node.func, ast.Name) and node.func.id == 'old' and len(node.args) == 1:
            self.olds.append(node.args[0])
            return ast.copy_location(ast.Name(id=f'__old{len(self.olds) - 1}', ctx=ast.Load()), node)
        return self.generic_visit(node)


def approx_or_eq(a, b):
    if isinstance(a, (float, int)) or hasattr(a, 'dtype') and getattr(a, 'shape', None) == ():
        try:
            return approx(a, b)
        except Exception:
            return a == b
    return a == b


NATIVE['approx_or_eq'] = approx_or_eq


_COMPILED = {}


def _compile_clause(expr):
    """(code of the clause with old(...) replaced by names, codes of the old(...) arguments): a function of the clause text only"""
    hit = _COMPILED.get(expr)
    if hit is None:
        tree = ast.parse(expr.replace('range(0, 2**20)', 'range(0, CODE_BOUND)'), mode='eval')
        rw = _OldRewriter()
        tree = ast.fix_missing_locations(rw.visit(tree))
        olds = [compile(ast.fix_missing_locations(ast.Expression(o)), '<old>', 'eval') for o in rw.olds]
        hit = _COMPILED[expr] = (compile(tree, '<clause>', 'eval'), olds)
    return hit


def eval_clause(expr, env, old_env=None, extra=None):
    code, olds = _compile_clause(expr)
    scope = dict(NATIVE)
    if extra:
        scope.update(extra)
    scope.update(env)
    for i, o in enumerate(olds):
        oscope = dict(NATIVE)
        if extra:
            oscope.update(extra)
        oscope.update(old_env or {})
        # bound variables of enclosing quantifiers are not visible here: old() must be closed or indexed outside
        scope[f'__old{i}'] = eval(o, oscope)
    return eval(code, scope)


def load_contracts():
    import contracts
    return contracts.load_all()


CURRENT = []
PASS = {'second': False, 'first': None}


def run_main(main, second_pass=True):
    """Run the harness; if the first pass is clean, run it a second time IN THE SAME PROCESS with another seed.  State that
    survives between calls (module-level caches, memoised results, objects shared through default arguments) then meets
    different inputs - a generic guard for properties that must hold for every history of calls."""
    rc = _run_once(main)
    first = CURRENT[-1] if CURRENT else None
    # (failures that carry a witness class are candidates for the known-findings list: they do not stop the second pass)
    if second_pass and first is not None and all(f.get('witness_class') for f in first.failures) and os.environ.get('VERIF_SECOND_PASS', '1') != '0':
        PASS['second'], PASS['first'] = True, first
        try:
            rc = _run_once(main)
        finally:
            PASS['second'] = False
    return rc


def _run_once(main):
    """Entry point wrapper: an exception that escapes from the REAL code (innermost frame under $VERIF_REPO) on an input the
    harness built is an outcome (`no_raise` violated, traceback in the witness), not a checker error; an exception raised by
    the harness itself still is one."""
    try:
        return main()
    except Exception as e:
        tb = traceback.extract_tb(e.__traceback__)
        root = os.path.abspath(REPO) + os.sep
        here = os.path.dirname(os.path.abspath(__file__)) + os.sep
        idx_real = [i for i, f in enumerate(tb) if os.path.abspath(f.filename).startswith(root)]
        idx_harness = [i for i, f in enumerate(tb) if os.path.abspath(f.filename).startswith(here)]
        real = [tb[i] for i in idx_real]
        # raised by (or below) the repository code: the last repository frame comes after the last harness frame
        if not CURRENT or not idx_real or (idx_harness and idx_harness[-1] > idx_real[-1]):
            raise
        h = CURRENT[-1]
        fr = real[-1]
        h.evaluations += 1
        h.fail(f'{fr.name}.no_raise', {'raised': f'{type(e).__name__}: {e}', 'at': f'{os.path.relpath(fr.filename, REPO)}:{fr.lineno}',
                                       'harness_step': f'{os.path.basename(tb[0].filename)}:{[f for f in tb if f.filename.endswith(os.path.basename(tb[0].filename))][-1].lineno}'},
               ''.join(traceback.format_exception_only(type(e), e)).strip())
        return h.finish()


class Harness:
    def __init__(self, pid):
        CURRENT.append(self)
        ap = argparse.ArgumentParser()
        ap.add_argument('--tier', default='quick')
        ap.add_argument('--seed', type=int, default=0)
        ap.add_argument('--out', default=None)
        ap.add_argument('--replay', default=None)
        self.args = ap.parse_args()
        self.pid = pid
        self.tier = self.args.tier
        self.seed = self.args.seed + (7919 if PASS['second'] else 0)
        self.evaluations = 0
        self.distinct = set()
        self.failures = []
        self.samples = []
        self.bounded = []
        self.rules = []
        self.reg = load_contracts()
        self.extra = {}

    def fail(self, clause, witness, detail='', witness_class=None, obligations=()):
        # keep the first (smallest) witness per clause and class
        for f in self.failures:
            if f['clause'] == clause and f.get('witness_class') == witness_class:
                f['count'] = f.get('count', 1) + 1
                return
        self.failures.append({'clause': clause, 'witness': _jsonable(witness), 'detail': str(detail)[:600],
                              'witness_class': witness_class, 'obligations': list(obligations), 'count': 1})

    def guard(self, what):
        """Checkpoint before a call that may crash the interpreter (uninitialised memory, no bounds check)."""
        if self.args.out:
            with open(self.args.out + '.current', 'w') as fh:
                json.dump(_jsonable(what), fh)

    def record(self, key, nontrivial=True, sample=None):
        self.evaluations += 1
        if nontrivial:
            self.distinct.add(key)
        if sample is not None and len(self.samples) < 5:
            self.samples.append(_jsonable(sample))

    def check_contract(self, key, call, inputs, classify=None, labels=None, old_needed=False, nontrivial=None):
        """Evaluate the contract `key` on each input (dict param -> value): requires filter, call, ensures."""
        c = self.reg[key]
        n = 0
        for inp in inputs:
            env = dict(inp)
            try:
                if not all(eval_clause(e, env, extra=self.extra) for _, e in c.get('requires', [])):
                    continue
            except Exception:
                continue
            old_env = copy.deepcopy(env) if old_needed else env
            n += 1
            try:
                res = call(**copy.deepcopy(inp) if old_needed else inp)
            except Exception as e:  # the contract says no_raise unless stated
                if type(e).__name__ in (c.get('may_raise') or ()):
                    continue
                self.record((key, _key(inp)), True)
                self.fail(f'{key}.no_raise', inp, f'{type(e).__name__}: {e}',
                          witness_class=classify(inp, 'no_raise', e) if classify else None)
                continue
            env['result'] = res
            self.record((key, _key(inp)), nontrivial(inp) if nontrivial else True, sample={'function': key, 'input': inp})
            for label, e in c.get('ensures', []):
                if labels is not None and label not in labels:
                    continue
                try:
                    ok = eval_clause(e, env, old_env, extra=self.extra)
                except Exception as ex:
                    ok = False
                    e = f'{e}  [raised {type(ex).__name__}: {ex}]'
                if not ok:
                    self.fail(f'{key}.ensures.{label}', inp, f'clause `{e}` false; result={_short(res)}',
                              witness_class=classify(inp, label, res) if classify else None,
                              obligations=[f"{c['module_name']}.{c['qualname']}/ensures.{label}"])
        return n

    def bounded_note(self, what, bound, n):
        self.bounded.append({'what': what, 'bound': bound, 'evaluations': n, 'label': 'bounded (not counted as proved)'})

    def finish(self):
        if PASS['second'] and PASS['first'] is not None:
            f = PASS['first']
            self.evaluations += f.evaluations
            self.distinct |= {('pass1',) + (k if isinstance(k, tuple) else (k,)) for k in f.distinct}
            self.samples = (f.samples + self.samples)[:5]
            self.bounded = f.bounded + [dict(b, what=b['what'] + ' [second pass in the same process, other seed]') for b in self.bounded[:1]]
            for fl in self.failures:
                fl['detail'] = '[second pass in the same process: state left behind by the first pass met other inputs] ' + fl['detail']
            seen_ = {(fl['clause'], fl.get('witness_class')) for fl in f.failures}
            self.failures = f.failures + [fl for fl in self.failures if (fl['clause'], fl.get('witness_class')) not in seen_]
            self.rules.append('the harness ran twice in one process (seeds s and s+7919): state surviving between calls meets different inputs')
        out = {'property': self.pid, 'tier': self.tier, 'seed': self.seed, 'evaluations': self.evaluations,
               'distinct_nontrivial': len(self.distinct), 'failures': self.failures, 'samples': self.samples,
               'bounded': self.bounded,
               'rule': '; '.join(self.rules) or 'executable contracts on the real functions over small-scope and seeded inputs; '
                                                  'distinct = distinct (function, input) pairs that satisfy the pre-condition'}
        if self.args.out:
            with open(self.args.out, 'w') as fh:
                json.dump(out, fh)
            if os.path.exists(self.args.out + '.current'):
                os.unlink(self.args.out + '.current')
        else:
            print(json.dumps(out, indent=1)[:4000])
        return 0


def _short(x):
    s = repr(x)
    return s if len(s) < 300 else s[:300] + '...'


def _key(inp):
    return repr(_jsonable(inp))


def _jsonable(x):
    try:
        import numpy as np
        if isinstance(x, np.ndarray):
            return {'ndarray': x.tolist(), 'dtype': str(x.dtype)}
        if isinstance(x, (np.integer,)):
            return int(x)
        if isinstance(x, (np.floating,)):
            return float(x)
    except ImportError:
        pass
    if isinstance(x, dict):
        return {str(k): _jsonable(v) for k, v in x.items()}
    if isinstance(x, (list, tuple)):
        return [_jsonable(v) for v in x]
    if isinstance(x, (int, float, str, bool)) or x is None:
        return x
    if isinstance(x, (set, frozenset)):
        return sorted(_jsonable(v) for v in x)
    return repr(x)


def small_int_arrays(max_len, max_code, min_len=1):
    import numpy as np
    for n in range(min_len, max_len + 1):
        for t in itertools.product(range(max_code + 1), repeat=n):
            yield np.array(t, dtype=np.int32)
