"""C08 native: streaming equals the reference batch semantics with median aggregation (real estimate_importances_minibatches)."""
import os
import re
import statistics
import sys
import tempfile
from types import SimpleNamespace

import numpy as np
import pandas as pd

import common
import e2e
from common import Harness, approx
from rank_common import InlinePool


def reference(lines, ncols, B, s):
    """the statement: rows at 1-based positions that are multiples of s, well-formed, in order, batches of B, tail iff > 1024."""
    consumed, invalid = [], 0
    for pos, ln in enumerate(lines, start=1):
        if pos % s != 0:
            continue
        import csv
        row = next(csv.reader([ln]))
        if len(row) == ncols:
            consumed.append(row)
        else:
            invalid += 1
    batches = [consumed[i:i + B] for i in range(0, len(consumed) - len(consumed) % B, B)]
    tail = consumed[len(consumed) - len(consumed) % B:]
    if len(tail) > 1024:
        batches.append(tail)
    return batches, invalid


def fake_triplets(rows, j):
    """deterministic stand-in for Rank(rows, state): a few (A, B, score) triplets depending on the rows and the batch number."""
    h = sum(len(c) for r in rows for c in r) + 7 * len(rows)
    first = rows[0][0] if rows and rows[0] else ''
    return [('f1', 'label', float((h + j) % 11)), ('label', 'f1', float((h + j) % 11)), ('f2', 'label', float(len(first) + j)),
            ('f1', 'label', float(j)),
            # identical scores in several batches (the median is over batches, not over distinct values) and self pairs listed twice
            ('f2', 'f1', float(j // 2)), ('f1', 'f2', 1.0 if j != 1 else 5.0), ('f2', 'f2', 2.0), ('f2', 'f2', 2.0 if j % 3 else 9.0)]


def main():
    h = Harness('C08')
    import outrank.core_ranking as CR
    rng = np.random.default_rng(800 + h.seed)
    quick = h.tier == 'quick'
    header = ['f1', 'f2', 'label']
    calls = []
    ckpts = []

    def stub_batch(line_tmp_storage, numeric_column_types, args, cpu_pool, column_descriptions, logger, pbar):
        # the checkpoint on disk at the start of this batch must be the median table of the batches before it
        if os.path.exists('ranking_checkpoint_tmp.tsv'):
            ckpts.append((len(calls), pd.read_csv('ranking_checkpoint_tmp.tsv', sep='\t')))
        else:
            ckpts.append((len(calls), None))
        j = len(calls)
        calls.append([list(r) for r in line_tmp_storage])
        from outrank.core_utils import BatchRankingSummary
        return BatchRankingSummary(fake_triplets(line_tmp_storage, j), {'t': 0.0}), {}, {c: 100.0 for c in column_descriptions}, {}

    real_batch = CR.compute_batch_ranking
    CR.compute_batch_ranking = stub_batch
    infos = []
    logger = SimpleNamespace(info=lambda m, *a, **k: infos.append(str(m)), warning=lambda *a, **k: None)
    configs = []
    for n_rows in ([0, 1, 5, 40, 1023, 1024, 1025, 1026, 2048, 2049, 2050, 3100] if quick else [0, 1, 2, 5, 17, 40, 1023, 1024, 1025, 1026, 1100, 2047, 2048, 2049, 2050, 3073, 3100, 4200]):
        for B in ([1, 7, 1024, 1025] if n_rows < 100 else [1024, 1025, 1500, 2048]):
            for s in (1, 2, 3):
                configs.append((n_rows, B, s))
    if quick:
        idx = rng.choice(len(configs), size=45, replace=False)
        configs = [configs[i] for i in sorted(idx)]
    try:
        for (n_rows, B, s) in configs:
            lines = []
            for i in range(n_rows):
                kind = rng.random()
                if kind < 0.08:
                    lines.append(f'a{i},b')                    # too few fields
                elif kind < 0.10:
                    lines.append(f'a{i},b,c,d')                # too many
                elif kind < 0.12:
                    lines.append(str(rng.choice([f'a{i},b,c,', f',a{i},b,c', f'a{i},b,,c', f'a{i},b,', 'a,b,c,,'])))  # surplus EMPTY field / trailing delimiter
                elif kind < 0.125:
                    lines.append(f'a{i},,')                    # well-formed row with empty cells
                elif kind < 0.15:
                    lines.append('')                           # empty line
                elif kind < 0.18:
                    lines.append(f'"x,{i}",y{i % 3},1')        # quoted delimiter: well-formed
                else:
                    lines.append(f'v{i % 5},w{i % 3},{i % 2}')
            with tempfile.TemporaryDirectory(dir=os.getcwd()) as d:
                path = os.path.join(d, 'data.csv')
                with open(path, 'w') as fh:
                    fh.write(','.join(header) + '\n' + ''.join(l + '\n' for l in lines))
                del calls[:], ckpts[:], infos[:]
                if os.path.exists('ranking_checkpoint_tmp.tsv'):
                    os.unlink('ranking_checkpoint_tmp.tsv')
                heuristic = 'MI-numba-randomized'
                args = SimpleNamespace(subsampling=s, minibatch_size=B, heuristic=heuristic, data_source='csv-raw', disable_tqdm='True')
                out = CR.estimate_importances_minibatches(path, header, None, set(), args=args, cpu_pool=InlinePool(), delimiter=',', logger=logger)
                final_ckpt = pd.read_csv('ranking_checkpoint_tmp.tsv', sep='\t') if os.path.exists('ranking_checkpoint_tmp.tsv') else None
            wit = {'n_rows': n_rows, 'minibatch_size': B, 'subsampling': s, 'lines': lines if n_rows <= 40 else f'{n_rows} generated lines (seed {h.seed})'}
            exp_batches, exp_invalid = reference(lines, len(header), B, s)
            h.record(('c08', n_rows, B, s), len(exp_batches) > 0, sample=wit if n_rows <= 5 else None)
            if calls != exp_batches:
                h.fail('consumed_rows_and_batches', wit, f'{len(calls)} batches of sizes {[len(c) for c in calls]} vs reference {[len(c) for c in exp_batches]}',
                       obligations=['core_ranking.estimate_importances_minibatches/ensures.full_batches', 'core_ranking.estimate_importances_minibatches/ensures.tail_rule'])
                continue
            got_invalid = 0
            for m in infos:
                mm = re.match(r'Detected (\d+) invalid lines', m)
                if mm:
                    got_invalid = int(mm.group(1))
            if got_invalid != exp_invalid:
                h.fail('malformed_rows_counted', wit, f'{got_invalid} vs {exp_invalid}',
                       obligations=['core_ranking.estimate_importances_minibatches/ensures.malformed_rows_counted'])
            trips = [t for j, b in enumerate(exp_batches) for t in fake_triplets(b, j)]

            def med_table(tr):
                g = {}
                for a, b, sc in tr:
                    g.setdefault((a, b), []).append(sc)
                return {k: statistics.median(v) for k, v in g.items()}
            grouped = out[1]
            got = {} if grouped is None else {(r.FeatureA, r.FeatureB): r.Score for r in grouped.itertuples()}
            if got != med_table(trips):
                h.fail('result_is_median_table_of_all_triplets', wit, f'{got} vs {med_table(trips)}',
                       obligations=['core_ranking.estimate_importances_minibatches/ensures.result_is_median_table_of_all_triplets'])
            # checkpoint at every batch boundary
            for j, ck in ckpts:
                exp_ck = med_table([t for jj, b in enumerate(exp_batches[:j]) for t in fake_triplets(b, jj)])
                got_ck = {} if ck is None else {(r.FeatureA, r.FeatureB): r.Score for r in ck.itertuples()}
                if got_ck != exp_ck:
                    h.fail('checkpoint_after_every_batch', dict(wit, at_batch=j), f'{got_ck} vs {exp_ck}',
                           obligations=['core_ranking.estimate_importances_minibatches/inv#1.preserve.checkpoint'])
                    break
            if exp_batches:
                got_ck = {} if final_ckpt is None else {(r.FeatureA, r.FeatureB): r.Score for r in final_ckpt.itertuples()}
                if got_ck != med_table(trips):
                    h.fail('checkpoint_after_every_batch', dict(wit, at_batch='end'), f'{got_ck} vs {med_table(trips)}')
    finally:
        CR.compute_batch_ranking = real_batch
        if os.path.exists('ranking_checkpoint_tmp.tsv'):
            os.unlink('ranking_checkpoint_tmp.tsv')
    h.bounded_note('row selection / batching / tail rule / invalid count / median table / checkpoint at every batch boundary on the real '
                   'streaming loop (batch ranking replaced by a recording stand-in inside the harness)',
                   f'{len(configs)} files with row counts around every batch and tail boundary, malformed rows anywhere', h.evaluations)
    # ---- end to end: pairwise_ranks.tsv is the median per ordered pair in ascending score order (real CLI)
    n_e2e = 1 if quick else 4
    for r_ in range(n_e2e):
        nrows = 2300
        rows = [[str(int(x)) for x in rng.integers(0, 4, 3)] for _ in range(nrows)]
        with tempfile.TemporaryDirectory(dir=os.getcwd()) as d:
            e2e.write_csv(d, ['f1', 'f2', 'label'], rows)
            res = e2e.run_cli(d, {'task': 'ranking', 'heuristic': 'MI-numba-randomized', 'minibatch_size': 1100, 'subsampling': 1,
                                  'num_threads': 1, 'target_ranking_only': 'False', 'include_cardinality_in_feature_names': 'False'})
        h.record(('e2e', r_), True)
        if res['rc'] != 0 or 'pairwise_ranks.tsv' not in res['files']:
            h.fail('cli.ranking_task_completes', {'rows': nrows}, f"rc={res['rc']} {res['stderr'][-400:]}")
            continue
        table = e2e.parse_tsv(res['files']['pairwise_ranks.tsv'])
        scores = [float(t['Score']) for t in table]
        if scores != sorted(scores):
            h.fail('pairwise_ranks_ascending', {'rows': nrows}, f'{scores[:10]}')
        pairs = [(t['FeatureA'], t['FeatureB']) for t in table]
        if len(set(pairs)) != len(pairs):
            h.fail('one_row_per_ordered_pair', {'rows': nrows}, 'duplicate ordered pairs in pairwise_ranks.tsv')
        if res['checkpoint_left']:
            h.fail('checkpoint_removed_at_end', {'rows': nrows}, 'ranking_checkpoint_tmp.tsv left behind')
    h.bounded_note('pairwise_ranks.tsv of a real CLI run: one row per ordered pair, ascending by score', f'{n_e2e} run(s) of 2300 rows, 2 batches', n_e2e)
    return h.finish()


if __name__ == '__main__':
    sys.exit(common.run_main(main))
