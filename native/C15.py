"""C15 native: executable class invariants of CountMinSketch / PrimitiveConstrainedCounter on the real code."""
import sys
from collections import Counter

import numpy as np

import common
from common import Harness


def main():
    h = Harness('C15')
    from outrank.algorithms.sketches import counting_cms as CMS
    from outrank.algorithms.sketches.counting_counters_ordinary import PrimitiveConstrainedCounter as PCC
    rng = np.random.default_rng(1500 + h.seed)
    quick = h.tier == 'quick'
    # ---- count-min sketch
    n_streams = 60 if quick else 600
    for sidx in range(n_streams):
        depth = int(rng.integers(1, 9))
        width = int(rng.choice([1, 2, 3, 7, 16, 64, 1024, 2 ** 15]))
        np.random.seed(int(rng.integers(0, 2 ** 31 - 1)))
        sk = CMS.CountMinSketch(depth, width)
        use_str = sidx % 3 == 0
        universe = [f's{u}' for u in range(12)] if use_str else [int(u) for u in rng.integers(-50, 10 ** 6, 12)]
        if sidx % 3 == 1 and sidx % 2 == 0:
            # integers whose hash is not the integer itself (-1), or wraps (2^61 - 1 and beyond), or exceeds 32 bits
            universe[:9] = [-1, -2, 0, 2 ** 61 - 1, 2 ** 61, -(2 ** 61 - 1), 2 ** 32 + 3, 2 ** 31, 2 ** 32 - 1]
        if sidx % 3 == 2:
            # mixed stream: ints and strings, including an int and its own decimal rendering
            universe = [int(u) for u in rng.integers(0, 200, 6)] + [f's{u}' for u in range(4)]
            universe += [str(universe[0]), str(universe[1])]
        w = Counter()
        total = 0
        for step in range(int(rng.integers(1, 40))):
            x = universe[int(rng.integers(0, len(universe)))]
            delta = int(rng.choice([0, 1, 1, 1, 2, 5, 100]))
            before = sk.M.copy()
            if step % 4 == 3:
                # the batch interface: every occurrence in the list carries the weight
                chunk = [universe[int(i_)] for i_ in rng.integers(0, len(universe), int(rng.integers(0, 6)))]
                sk.batch_add(chunk, delta)
                for y_ in chunk:
                    w[y_] += delta
                    total += delta
                bwit = {'depth': depth, 'width': width, 'stream_index': sidx, 'step': step, 'batch': chunk, 'delta': delta}
                h.record(('cms-batch', sidx, step), width > 1)
                if any(int(sk.M[r].sum()) != total for r in range(depth)):
                    h.fail('cms.rowsum_is_total', bwit, f'row sums {[int(sk.M[r].sum()) for r in range(depth)]} total {total}')
                for y in universe:
                    q = int(sk.query(y))
                    if q < w[y] or q > total:
                        h.fail('cms.never_below_true_weight' if q < w[y] else 'cms.never_above_total', dict(bwit, queried=y),
                               f'estimate {q}, true weight {w[y]}, total {total}')
                continue
            sk.add(x, delta)
            w[x] += delta
            total += delta
            wit = {'depth': depth, 'width': width, 'stream_index': sidx, 'step': step, 'item': x, 'delta': delta}
            h.record(('cms', sidx, step), width > 1, sample=wit)
            # contract of _add: exactly one cell per row moves, by delta, at the cell query() reads
            for r in range(depth):
                loc = int(CMS.cms_hash(x, sk.hash_seeds[r], width))
                diff = sk.M[r] - before[r]
                exp = np.zeros(width, dtype=np.int64)
                exp[loc] = delta
                if not np.array_equal(diff, exp):
                    h.fail('CountMinSketch._add.ensures.cells', wit, f'row {r}: diff {diff.tolist()[:20]} expected {exp.tolist()[:20]}',
                           obligations=['counting_cms.CountMinSketch._add/ensures.cells'])
            if any(int(sk.M[r].sum()) != total for r in range(depth)):
                h.fail('cms.rowsum_is_total', wit, f'row sums {[int(sk.M[r].sum()) for r in range(depth)]} total {total}')
            for y in universe:
                q = int(sk.query(y))
                if q < w[y]:
                    h.fail('cms.never_below_true_weight', dict(wit, query=y), f'query {q} < true {w[y]}')
                if q > total:
                    h.fail('cms.never_above_total', dict(wit, query=y), f'query {q} > total {total}')
    h.bounded_note('count-min invariants after every prefix of random update streams (ints and strings, depth 1..8, '
                   'width in {1,2,3,7,16,64,1024,2^15}, weights >= 0) on the real numba code', f'{n_streams} streams', h.evaluations)
    # ---- bounded exact counter
    n0 = h.evaluations
    # large accumulated weights (up to just below 2^31 in total): small increments on top of a large cell still count
    np.random.seed(7)
    skb = CMS.CountMinSketch(4, 1000)
    wb, totb = Counter(), 0
    for x_, d_ in [('big', 2 ** 24), ('big', 1), ('big', 1), ('big', 3), ('other', 2 ** 24 + 1), ('other', 1), ('big', 1), ('x', 5), ('big', 1), ('other', 1)]:
        skb.add(x_, d_)
        wb[x_] += d_
        totb += d_
    h.record(('cms-big',), True)
    for y_ in wb:
        q_ = int(skb.query(y_))
        if q_ < wb[y_] or q_ > totb:
            h.fail('cms.never_below_true_weight' if q_ < wb[y_] else 'cms.never_above_total', {'stream': 'weights around 2^24 followed by unit increments', 'queried': y_},
                   f'estimate {q_}, true weight {wb[y_]}, total {totb}')
    if any(int(skb.M[r].sum()) != totb for r in range(4)):
        h.fail('cms.rowsum_is_total', {'stream': 'weights around 2^24 followed by unit increments'}, f'row sums {[int(skb.M[r].sum()) for r in range(4)]} total {totb}')
    for sidx in range(200 if quick else 3000):
        bound = int(rng.integers(-1, 8))
        c = PCC(bound)
        true = Counter()
        refused = False
        universe = [f'v{u}' for u in range(int(rng.integers(1, 10)))]
        for step in range(int(rng.integers(1, 40))):
            v = universe[int(rng.integers(0, len(universe)))]
            before_len = len(c.default_counter)
            distinct_before = len(true)
            c.add(v)
            true[v] += 1
            wit = {'bound': bound, 'stream_index': sidx, 'step': step, 'value': v, 'true': dict(true),
                   'counter': dict(c.default_counter)}
            h.record(('pcc', sidx, step), bound > 0, sample=wit)
            if len(c.default_counter) > max(bound, 0):
                h.fail('PrimitiveConstrainedCounter.add.ensures.bounded', wit, 'tracks more than bound distinct values')
            if any(c.default_counter[k] > true[k] for k in c.default_counter):
                h.fail('PrimitiveConstrainedCounter.add.ensures.never_over', wit, 'over-count')
            if len(true) < bound and dict(c.default_counter) != dict(true):
                h.fail('PrimitiveConstrainedCounter.add.ensures.exact_while_below_bound', wit, 'not exact below the bound')
    h.bounded_note('bounded counter fed item by item: never over-counts, exact while fewer than bound distinct values, '
                   'never more than bound keys', 'random streams, bounds -1..7', h.evaluations - n0)
    return h.finish()


if __name__ == '__main__':
    sys.exit(common.run_main(main))
