"""Run the real outrank CLI end to end on a small csv-raw data set (fresh interpreter per run)."""
import json
import os
import shutil
import subprocess
import sys
import tempfile

REPO = os.environ.get('VERIF_REPO', '/repo')


def write_csv(dirpath, header, rows):
    os.makedirs(dirpath, exist_ok=True)
    with open(os.path.join(dirpath, 'data.csv'), 'w', encoding='utf-8') as fh:
        fh.write(','.join(header) + '\n')
        for r in rows:
            fh.write((r if isinstance(r, str) else ','.join(r)) + '\n')


def run_cli(data_dir, flags, timeout=600, keep=False):
    """returns dict(rc, out_dir files as text, stderr tail); cwd is a scratch dir (the task writes its checkpoint there)."""
    work = tempfile.mkdtemp(prefix='outrank-e2e.', dir=os.getcwd())
    out_dir = os.path.join(work, 'out')
    cmd = [sys.executable, '-m', 'outrank', '--data_path', data_dir, '--data_source', 'csv-raw', '--output_folder', out_dir,
           '--disable_tqdm', 'True']
    for k, v in flags.items():
        cmd += [f'--{k}', str(v)]
    env = dict(os.environ, PYTHONPATH=REPO + os.pathsep + os.environ.get('PYTHONPATH', ''), PYTHONHASHSEED=os.environ.get('PYTHONHASHSEED', '0'))
    p = subprocess.run(cmd, cwd=work, env=env, capture_output=True, text=True, timeout=timeout)
    res = {'rc': p.returncode, 'stderr': p.stderr[-3000:], 'files': {}}
    if os.path.isdir(out_dir):
        for f in os.listdir(out_dir):
            try:
                res['files'][f] = open(os.path.join(out_dir, f), encoding='utf-8').read()
            except Exception:
                pass
    res['checkpoint_left'] = os.path.exists(os.path.join(work, 'ranking_checkpoint_tmp.tsv'))
    if not keep:
        shutil.rmtree(work, ignore_errors=True)
    return res


def parse_tsv(text):
    lines = [l for l in text.splitlines() if l]
    head = lines[0].split('\t')
    return [dict(zip(head, l.split('\t'))) for l in lines[1:]]
