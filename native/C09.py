"""C09 native (bounded stand-in): the real CLI with several pool sizes and hash seeds against an in-process sequential reference."""
import os
import sys
import tempfile
from types import SimpleNamespace

import numpy as np

import common
import e2e
from common import Harness, approx
from rank_common import InlinePool


def main():
    h = Harness('C09')
    rng = np.random.default_rng(900 + h.seed)
    quick = h.tier == 'quick'
    pools = [1, 2, 4] if quick else [1, 2, 3, 4, 8, 16]
    B = 1100
    n_batches = 3
    cols = ['f0', 'f1', 'f2', 'f3', 'label']
    rows = []
    for b in range(n_batches):
        for _ in range(B):
            lab = int(rng.integers(0, 2))
            # the relation between features and label rotates from batch to batch
            vals = [int(rng.integers(0, 4)) for _ in range(4)]
            vals[b % 4] = lab if rng.random() < 0.85 else 1 - lab
            rows.append([str(v) for v in vals] + [str(lab)])
    flags = {'task': 'ranking', 'heuristic': 'MI-numba-randomized', 'minibatch_size': B, 'subsampling': 1, 'target_ranking_only': 'False',
             'include_cardinality_in_feature_names': 'False', 'combination_number_upper_bound': 6}
    with tempfile.TemporaryDirectory(dir=os.getcwd()) as d:
        e2e.write_csv(d, cols, rows)
        # sequential in-process reference (no worker processes at all)
        import outrank.core_ranking as CR
        for g in (CR.GLOBAL_CARDINALITY_STORAGE, CR.GLOBAL_COUNTS_STORAGE, CR.GLOBAL_RARE_VALUE_STORAGE, CR.GLOBAL_PRIOR_COMB_COUNTS, CR.IGNORED_VALUES):
            g.clear()
        import random
        random.seed(a=123, version=2)
        args = SimpleNamespace(subsampling=1, minibatch_size=B, heuristic='MI-numba-randomized', data_source='csv-raw', disable_tqdm='True',
                               label_column='label', target_ranking_only='False', combination_number_upper_bound=6, reference_model_JSON='',
                               mi_stratified_sampling_ratio=1.0, feature_set_focus=None, transformers='none', explode_multivalue_features='False',
                               subfeature_mapping='False', interaction_order=1, include_noise_baseline_features='False', missing_value_symbols=',{}',
                               max_unique_hist_constraint=30000, task='ranking', rare_value_count_upper_bound=1)
        logger = SimpleNamespace(info=lambda *a, **k: None, warning=lambda *a, **k: None)
        ref = CR.estimate_importances_minibatches(os.path.join(d, 'data.csv'), cols, None, set(), args=args, cpu_pool=InlinePool(), delimiter=',', logger=logger)[1]
        if os.path.exists('ranking_checkpoint_tmp.tsv'):
            os.unlink('ranking_checkpoint_tmp.tsv')
        ref_map = {(r.FeatureA, r.FeatureB): float(r.Score) for r in ref.itertuples()}
        outs = {}
        for nt in pools:
            for hs in (['0'] if nt != pools[0] else ['0', '7']):
                os.environ['PYTHONHASHSEED'] = hs
                res = e2e.run_cli(d, dict(flags, num_threads=nt))
                h.record(('cli', nt, hs), True, sample={'num_threads': nt, 'PYTHONHASHSEED': hs})
                if res['rc'] != 0 or 'pairwise_ranks.tsv' not in res['files']:
                    h.fail('cli.ranking_task_completes', {'num_threads': nt}, f"rc={res['rc']} {res['stderr'][-300:]}")
                    continue
                tab = e2e.parse_tsv(res['files']['pairwise_ranks.tsv'])
                outs[(nt, hs)] = {(t['FeatureA'], t['FeatureB']): float(t['Score']) for t in tab}
        # sub-sampled estimation with a column of many distinct values, pairwise scope: the pool size still does not matter
        d2 = os.path.join(d, 'hc')
        rows2 = [r[:4] + [f'id{(i * 7) % 900}'] + r[4:] for i, r in enumerate(rows[:2 * B])]
        e2e.write_csv(d2, cols[:4] + ['hc'] + cols[4:], rows2)
        outs2 = {}
        for nt in (1, 3):
            res = e2e.run_cli(d2, dict(flags, num_threads=nt, mi_stratified_sampling_ratio=0.5, combination_number_upper_bound=1000))
            h.record(('cli-ratio', nt), True)
            if res['rc'] != 0 or 'pairwise_ranks.tsv' not in res['files']:
                h.fail('cli.ranking_task_completes', {'num_threads': nt, 'mi_stratified_sampling_ratio': 0.5}, f"rc={res['rc']} {res['stderr'][-300:]}")
                continue
            outs2[nt] = {(t['FeatureA'], t['FeatureB']): float(t['Score']) for t in e2e.parse_tsv(res['files']['pairwise_ranks.tsv'])}
        if len(outs2) == 2 and outs2[1] != outs2[3]:
            diff = [k for k in outs2[1] if outs2[3].get(k) != outs2[1][k]]
            h.fail('identical_for_every_pool_size_and_fresh_run', {'mi_stratified_sampling_ratio': 0.5, 'columns': cols[:4] + ['hc'] + cols[4:], 'num_threads': [1, 3],
                                                                  'rows': '2 batches, column hc with 900 distinct values'}, f'{len(diff)} pair scores differ, e.g. {diff[:3]}')
        # string-hash seed independence with a feature focus set and a binding cap (fixed defect 662f225)
        focus = {}
        for hs in ('0', '1', '2', '3') if quick else [str(i) for i in range(8)]:
            os.environ['PYTHONHASHSEED'] = hs
            res = e2e.run_cli(d, dict(flags, num_threads=1, feature_set_focus='f0,f1,f2,f3', combination_number_upper_bound=3))
            h.record(('cli-focus', hs), True)
            if res['rc'] != 0 or 'pairwise_ranks.tsv' not in res['files']:
                h.fail('cli.ranking_task_completes', {'feature_set_focus': 'f0,f1,f2,f3', 'PYTHONHASHSEED': hs}, f"rc={res['rc']} {res['stderr'][-300:]}")
                continue
            focus[hs] = res['files']['pairwise_ranks.tsv']
        if len(set(focus.values())) > 1:
            h.fail('identical_for_every_string_hash_seed', {'feature_set_focus': 'f0,f1,f2,f3', 'combination_number_upper_bound': 3,
                                                            'PYTHONHASHSEED': sorted(focus)}, 'pairwise_ranks.tsv differs between hash seeds',
                   witness_class='focus_set_hash_order')
        os.environ['PYTHONHASHSEED'] = '0'
        wit = {'rows': f'{len(rows)} rows in {n_batches} batches whose feature/label relation rotates (seed {h.seed})', 'flags': flags}
        for key, m in outs.items():
            if set(m) != set(ref_map) or any(not approx(m[k], ref_map[k], 1e-6) for k in ref_map):
                diff = [k for k in ref_map if k not in m or not approx(m[k], ref_map[k], 1e-6)]
                h.fail('scores_equal_sequential_reference', dict(wit, num_threads=key[0], PYTHONHASHSEED=key[1]),
                       f'{len(diff)} pairs differ from the in-process sequential reference, e.g. {diff[:3]}',
                       obligations=['importance_estimator.generate_data_for_ranking/frame.pure'])
        base = outs.get((pools[0], '0'))
        for key, m in outs.items():
            if base is not None and m != base:
                h.fail('identical_for_every_pool_size_and_fresh_run', dict(wit, num_threads=key[0], PYTHONHASHSEED=key[1]), 'pairwise_ranks.tsv differs')
    # ---- function level: many pairs per worker (a wide frame, pairwise scope): the rank graph does not depend on args.num_threads
    import pandas as pd
    import outrank.core_ranking as CR
    from rank_common import Pbar, make_args
    for ncols, ratio in ((40, 1.0), (34, 0.8)):
        wcols = [f'w{i}' for i in range(ncols)] + ['label']
        dfw = pd.DataFrame({c: rng.integers(0, 4, 300).astype(str) for c in wcols})
        graphs = {}
        for nt in (1, 2, 64):
            a_ = make_args(heuristic='MI-numba-randomized', target_ranking_only='False', combination_number_upper_bound=10 ** 6,
                           num_threads=nt, mi_stratified_sampling_ratio=ratio)
            CR.GLOBAL_PRIOR_COMB_COUNTS.clear()
            trip = CR.mixed_rank_graph(dfw.copy(), a_, InlinePool(), Pbar()).triplet_scores
            graphs[nt] = {(x, y): float(sc) for x, y, sc in trip}
            h.record(('wide', ncols, nt), True, sample={'columns': ncols + 1, 'num_threads': nt})
        for nt in (2, 64):
            if graphs[nt] != graphs[1]:
                diff = [k for k in graphs[1] if graphs[nt].get(k) != graphs[1][k]]
                h.fail('identical_for_every_pool_size_and_fresh_run',
                       {'columns': f'{ncols} features with 4 values + label, 300 rows (seed {h.seed})', 'scope': 'pairwise', 'num_threads': [1, nt],
                        'mi_stratified_sampling_ratio': ratio, 'pairs': len(graphs[1])},
                       f'{len(diff)} of {len(graphs[1])} scores depend on num_threads, e.g. {diff[:3]}')
    h.bounded_note('pairwise_ranks.tsv identical for pool sizes and string-hash seeds, and equal to an in-process sequential reference',
                   f'pool sizes {pools}, 2 hash seeds, 3 mini-batches with different content, cap 6 of 15 pairs', len(outs))
    return h.finish()


if __name__ == '__main__':
    sys.exit(common.run_main(main, second_pass=False))      # every run is a fresh CLI process already
