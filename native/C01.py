import mi_harness
import sys
import common
sys.exit(common.run_main(lambda: mi_harness.main("C01")))
