import mi_harness
import sys
sys.exit(mi_harness.main("C01"))
