"""C12 native: vault formulas vs their names, preset union, get_vals, keep/drop rule (real code)."""
import math
import re
import sys
import warnings

import numpy as np
import pandas as pd

import common
from common import Harness

warnings.filterwarnings('ignore')
FW = re.compile(r'^_tr_fw(_prob)?_(sqrt|log)_res_([0-9.]+)_gt_([0-9.]+)$')


def spec_value(name, x, xmax):
    """the function the NAME describes, evaluated on one float (numpy float semantics for domain errors)."""
    with np.errstate(all='ignore'):
        x = np.float64(x)
        m = FW.match(name)
        if m:
            op = np.sqrt if m.group(2) == 'sqrt' else np.log
            res, gt = float(m.group(3)), float(m.group(4))
            if x < gt:
                return x
            if x > gt:
                return np.round(op(x - gt) * res, 0)
            return np.float64(0)
        table = {
            '_tr_sqrt': lambda: np.sqrt(x), '_tr_log(x+1)': lambda: np.log(x + 1),
            '_tr_sqrt(abs(x))': lambda: np.sqrt(abs(x)), '_tr_log(abs(x)+1)': lambda: np.log(abs(x) + 1),
            '_tr_div(x,abs(x))*log(abs(x))': lambda: np.divide(x, abs(x)) * np.log(abs(x)),
            '_tr_log(x + sqrt(pow(x,2), 1)': lambda: np.log(x + np.sqrt(x * x + 1)),
            '_tr_log*sqrt': lambda: np.log(x + 1) * np.sqrt(x), '_tr_log*100': lambda: np.round(np.log(x + 1) * 100, 0),
            '_tr_nonzero': lambda: np.float64(1 if x != 0 else 0), '_tr_round(div(x,max))': lambda: np.round(np.divide(x, xmax), 0),
        }
        return table[name]() if name in table else None


def same(a, b):
    a, b = np.float64(a), np.float64(b)
    return (np.isnan(a) and np.isnan(b)) or a == b or abs(a - b) <= 1e-9 * max(1.0, abs(a), abs(b))


def main():
    h = Harness('C12')
    from outrank.feature_transformations import feature_transformer_vault as V
    from outrank.feature_transformations.ranking_transformers import FeatureTransformerGeneric as FTG
    rng = np.random.default_rng(1200 + h.seed)
    quick = h.tier == 'quick'
    import copy as _copy
    vault = _copy.deepcopy({k: dict(v) for k, v in V._tr_global_namespace.items()})     # snapshot: constructing transformers must not change the presets
    grid = [-1e6, -7.5, -1.0, -0.5, 0.0, 0.005, 0.01, 0.02, 0.04, 0.08, 0.16, 0.32, 0.5, 0.64, 0.96, 1.0, 1.5, 2.0, 3.0, 4.0, 7.99,
            8.0, 8.01, 16.0, 32.0, 64.0, 95.9, 96.0, 96.1, 100.0, 1e4, 1e12]
    grid += [float(x) for x in rng.uniform(-5, 120, 20 if quick else 300)]
    X = np.array(grid)
    # ---- (1) every formula of the three presets against the function its name describes
    for preset in ('minimal', 'default', 'fw-transformers'):
        for name, text in vault[preset].items():
            with np.errstate(all='ignore'):
                got = eval(text, {'np': np, 'X': X})
            got = np.broadcast_to(np.asarray(got, dtype=np.float64), X.shape)
            for xv, gv in zip(X, got):
                exp = spec_value(name, xv, X.max())
                h.record(('formula', name, float(xv)), True)
                if exp is None:
                    h.fail('formula.name_has_no_spec', {'name': name}, 'no function can be derived from this name')
                    break
                if not same(gv, exp):
                    h.fail(f'formula[{name}]', {'preset': preset, 'name': name, 'text': text, 'X': float(xv)},
                           f'formula gives {gv}, the name says {exp}', obligations=[f'vault[{preset}].formula[{name}]'])
                    break
    # ---- (2) comma separated preset lists select the union
    names = ['minimal', 'default', 'fw-transformers', 'extended', 'verbose']
    for _ in range(30 if quick else 300):
        k = int(rng.integers(1, 4))
        lst = [str(x) for x in rng.choice(names, k)]
        want = {}
        for p in lst:
            want.update(vault[p])
        got = FTG(set(), ','.join(lst)).transformer_collection
        h.record(('preset', tuple(lst)), len(set(lst)) > 1, sample={'preset': ','.join(lst)})
        if dict(got) != want:
            h.fail('FeatureTransformerGeneric.__init__.ensures.union_of_presets', {'preset': ','.join(lst)},
                   f'{len(got)} entries, union has {len(want)}',
                   obligations=['ranking_transformers.FeatureTransformerGeneric.__init__/ensures.union_of_presets'])
        if {k: dict(v) for k, v in V._tr_global_namespace.items()} != vault:
            h.fail('FeatureTransformerGeneric.__init__.presets_untouched', {'preset': ','.join(lst)},
                   'building a transformer changed the module-level presets (later transformers see other formulas)')
            break
    # ---- (3) get_vals and (4) the keep/drop rule on the real construct_new_features
    for case in range(8 if quick else 80):
        n = int(rng.integers(20, 200))
        cols = {}
        for c in range(3):
            zero_share = float(rng.choice([0.0, 0.3, 0.74, 0.76, 0.79, 0.81, 0.95]))
            allow_neg = rng.random() < 0.4
            vals = []
            for _i in range(n):
                if rng.random() < zero_share:
                    vals.append(str(rng.choice(['', '0', '"0"', '0.0'])))
                else:
                    v = float(rng.choice([1, 2, 3, 5, 8, 13, 40, 97, 0.5, 0.03])) * (-1 if allow_neg and rng.random() < 0.3 else 1)
                    vals.append(str(v) if rng.random() < 0.8 else f'"{v}"')
            cols[f'n{c}'] = vals
        cols['cat'] = [str(rng.choice(['a', 'b'])) for _ in range(n)]
        df = pd.DataFrame(cols)
        for preset in ('minimal', 'default', 'fw-transformers'):
            tr = FTG({'n0', 'n1', 'n2'}, preset)
            for c in ('n0', 'n1', 'n2'):
                xs = tr.get_vals(df, c)
                exp = [0.0 if len(s.replace('"', '')) == 0 else float(s.replace('"', '')) for s in cols[c]]
                if list(xs) != exp:
                    h.fail('FeatureTransformerGeneric.get_vals.ensures.numeric_parse', {'column': cols[c][:20]}, 'parse differs')
            with np.errstate(all='ignore'):
                out = tr.construct_new_features(df.copy())
            if list(out.columns[:len(df.columns)]) != list(df.columns) or not out[list(df.columns)].equals(df) or len(out) != n:
                h.fail('construct_new_features.additive', {'case': case, 'preset': preset}, 'original columns / rows changed')
            for c in ('n0', 'n1', 'n2'):
                Xc = np.array([0.0 if len(s.replace('"', '')) == 0 else float(s.replace('"', '')) for s in cols[c]])
                for name, text in vault[preset].items():
                    with np.errstate(all='ignore'):
                        arr = np.broadcast_to(np.asarray(eval(text, {'np': np, 'X': Xc})), Xc.shape).astype(str)
                    u, cnt = np.unique(arr, return_counts=True)
                    keep = len(u) > 1 and cnt.max() / cnt.sum() < 0.80 and np.count_nonzero(arr == 'nan') / len(arr) < 0.75
                    col = f'{c}{name}'
                    h.record(('rule', case, preset, col), True)
                    wit = {'case': case, 'preset': preset, 'column': col, 'values': cols[c][:60], 'distinct': int(len(u)),
                           'top_share': float(cnt.max() / cnt.sum()), 'nan_share': float(np.count_nonzero(arr == 'nan') / len(arr))}
                    if keep != (col in out.columns):
                        h.fail('construct_new_features.keep_iff_not_degenerate', wit,
                               f'rule says keep={keep}, emitted={col in out.columns}')
                    elif keep and list(out[col]) != list(arr):
                        h.fail('construct_new_features.values_are_formula_as_text', wit, 'emitted values differ from str(formula(X))')
    # ---- one transformer object applied to a sequence of frames with the same column names and the same number of rows:
    # the contract quantifies over every (object, frame) pair, so what it emits depends on the frame at hand only
    for preset in ('minimal', 'default'):
        tr = FTG({'f', 'g'}, preset)
        n = 60
        for step in range(3 if quick else 8):
            fv = [float(v) for v in rng.choice([1, 2, 3, 5, 8, 13, 40, 97, 0.5], n)] if step != 1 else \
                 [float(v) for v in rng.choice([-2, -3, -5, 0, 0, 0, 0, 0, 0, 0], n)]
            gv = [float(v) for v in rng.choice([0.25, 4, 9, 16, 100, 1e4][step % 3:], n)]
            frame = {'f': [repr(v) for v in fv], 'g': [repr(v) for v in gv], 'cat': ['a'] * n}
            df = pd.DataFrame(frame)
            for c in ('f', 'g'):
                if list(tr.get_vals(df, c)) != [float(s) for s in frame[c]]:
                    h.fail('FeatureTransformerGeneric.get_vals.ensures.numeric_parse',
                           {'column': frame[c][:20], 'same_object_call_number': step + 1}, 'parse differs from the frame passed in')
            with np.errstate(all='ignore'):
                out = tr.construct_new_features(df.copy())
            for c in ('f', 'g'):
                Xc = np.array([float(s) for s in frame[c]])
                for name, text in vault[preset].items():
                    with np.errstate(all='ignore'):
                        arr = np.broadcast_to(np.asarray(eval(text, {'np': np, 'X': Xc})), Xc.shape).astype(str)
                    u, cnt = np.unique(arr, return_counts=True)
                    keep = len(u) > 1 and cnt.max() / cnt.sum() < 0.80 and np.count_nonzero(arr == 'nan') / len(arr) < 0.75
                    col = f'{c}{name}'
                    h.record(('reuse', preset, step, col), True)
                    wit = {'preset': preset, 'column': col, 'same_object_call_number': step + 1, 'values': frame[c][:60]}
                    if keep != (col in out.columns):
                        h.fail('construct_new_features.keep_iff_not_degenerate', wit, f'rule says keep={keep}, emitted={col in out.columns}')
                    elif keep and list(out[col]) != list(arr):
                        h.fail('construct_new_features.values_are_formula_as_text', wit, 'emitted values differ from str(formula(X)) of this frame')
    # ---- huge integer-looking text (epoch millis, byte counters) and long columns: values are still the formula on the float parse
    big = {'ts': [str(int(v)) for v in rng.integers(1_600_000_000_000, 1_700_000_000_000, 40)],
           'nbytes': [str(int(v)) for v in rng.integers(3_000_000_000, 9_000_000_000, 40)],
           'cat': ['a'] * 40}
    long_n = 40000
    trend = np.concatenate([np.linspace(1, 50, 33000), np.linspace(500, 900, long_n - 33000)])
    long_cols = {'trend': [repr(float(round(v, 3))) for v in trend], 'cat': ['a'] * long_n}
    for frame, numeric, presets in ((big, ['ts', 'nbytes'], ('default',)), (long_cols, ['trend'], ('minimal', 'default'))):
        df = pd.DataFrame(frame)
        for preset in presets:
            tr = FTG(set(numeric), preset)
            with np.errstate(all='ignore'):
                out = tr.construct_new_features(df.copy())
            for c in numeric:
                Xc = np.array([float(s) for s in frame[c]])
                for name, text in vault[preset].items():
                    with np.errstate(all='ignore'):
                        arr = np.broadcast_to(np.asarray(eval(text, {'np': np, 'X': Xc})), Xc.shape).astype(str)
                    u, cnt = np.unique(arr, return_counts=True)
                    keep = len(u) > 1 and cnt.max() / cnt.sum() < 0.80 and np.count_nonzero(arr == 'nan') / len(arr) < 0.75
                    col = f'{c}{name}'
                    h.record(('scale', preset, col), True)
                    wit = {'preset': preset, 'column': col, 'rows': len(Xc), 'first_values': frame[c][:5]}
                    if keep != (col in out.columns):
                        h.fail('construct_new_features.keep_iff_not_degenerate', wit, f'rule says keep={keep}, emitted={col in out.columns}')
                    elif keep and list(out[col]) != list(arr):
                        bad = [i for i, (a_, b_) in enumerate(zip(out[col], arr)) if a_ != b_][:3]
                        h.fail('construct_new_features.values_are_formula_as_text', dict(wit, rows_differing=bad),
                               f'emitted {[out[col][i] for i in bad]} vs formula {[arr[i] for i in bad]}')
    h.bounded_note('formula == function named, on a grid incl. negatives, zeros, thresholds +- eps, huge values; preset unions; '
                   'keep/drop rule and emitted text on the real construct_new_features', 'grid of %d points x all entries; random '
                   'columns with zero/empty shares around 75%%/80%%' % len(grid), h.evaluations)
    return h.finish()


if __name__ == '__main__':
    sys.exit(common.run_main(main))
