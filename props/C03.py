"""C03 - cardinality correction subtracts the displaced-copy noise floor."""
FUNCTIONS = ['compute_conditional_entropy', 'compute_entropies', 'mutual_info_estimator_numba', 'numba_mi']
LEVEL = 'proof'
EXPLANATION = ('corrected branch == H(Y*|X) - H(Y|X) with Y* read at (row + stratum size) mod n inside each stratum '
               '(spec functions cntgs/rows/condsum_bg); flag contract of numba_mi; corollaries and the statistical ranking '
               'corollary as bounded stand-ins')
ASSUMPTIONS = ['"informative feature outranks noise for all seeds" is statistical: bounded stand-in over seeds only']
TRUSTED = ['numpy.where', 'numpy.count_nonzero', 'numpy.zeros', 'numba njit (compiler)']
