"""C09 - results independent of worker count and scheduling, and reproducible."""
import ast

import z3

FUNCTIONS = ['get_importances_estimate_pairwise', 'generate_data_for_ranking', 'conduct_feature_ranking', 'numba_mi', 'max_pair_coverage',
             'mixed_rank_graph', 'prior_combinations_sample']
LEVEL = 'other'
CLOSURE = 'frame'     # callees outside FUNCTIONS contribute their frame obligation only (their values are C01-C07's business)
EXPLANATION = ('determinism proof under a TRUSTED concurrency contract - interleavings are not explored by this family.  (1) trusted stub: '
               'pool.amap(f, xs).get() == [f(x) for x in xs], each f(x) in an isolated worker; mixed_rank_graph is verified against it '
               '(rows keyed by the names carried in each triplet).  (2) frame obligations on the worker function and everything it calls: '
               'reads only parameters and locals - no module-level mutable object, no RNG, clock, file, no uncontracted same-module callee '
               '(checked on the real AST on every run).  (3) module RNG streams are seeded by literals at import; --num_threads reaches only '
               'Pool(...); no iteration over a set (hash-seed dependent order) reaches the output except loops proved order-insensitive '
               '(the sampler\'s key-initialisation loop, C07).  Bounded stand-in: the real CLI run with pool sizes 1/2/4 (16 in thorough) and '
               'different string-hash seeds on a multi-batch file, compared with an in-process sequential reference')
ASSUMPTIONS = ['pathos ProcessingPool.amap is an order-preserving map over isolated worker processes (the only concurrency fact; NOT explored)',
               'the set-iteration scan is syntactic (names bound to set(...) / set expressions inside the listed pipeline functions)',
               'numba compiled code and numpy are deterministic']
TRUSTED = ['pathos.multiprocessing.ProcessingPool.amap', 'random.seed', 'numpy.random.seed']
PIPELINE = [('outrank/core_ranking.py', ['compute_batch_ranking', 'mixed_rank_graph', 'get_combinations_from_columns', 'compute_combined_features',
                                         'compute_expanded_multivalue_features', 'compute_subfeatures', 'enrich_with_transformations',
                                         'prior_combinations_sample', 'get_grouped_df']),
            ('outrank/feature_transformations/ranking_transformers.py', ['FeatureTransformerGeneric.construct_new_features',
                                                                         'FeatureTransformerNoise.construct_new_features'])]
# loops over a set whose result provably does not depend on the order (contract C07: each iteration writes a distinct key)
ORDER_INSENSITIVE = {('prior_combinations_sample', 'missing_combinations')}


def _is_set_expr(node, set_names):
    if isinstance(node, (ast.Set, ast.SetComp)):
        return True
    if isinstance(node, ast.Call):
        f = node.func
        if isinstance(f, ast.Name) and f.id in ('set', 'frozenset'):
            return True
        if isinstance(f, ast.Attribute) and f.attr in ('union', 'difference', 'intersection', 'symmetric_difference') and (
                _is_set_expr(f.value, set_names) or (isinstance(f.value, ast.Name) and f.value.id in ('set', 'frozenset'))):
            return True
    if isinstance(node, ast.BinOp) and isinstance(node.op, (ast.Sub, ast.BitOr, ast.BitAnd, ast.BitXor)):
        return _is_set_expr(node.left, set_names) or _is_set_expr(node.right, set_names)
    if isinstance(node, ast.Name):
        return node.id in set_names
    return False


ORDER_FREE_CONSUMERS = ('sorted', 'set', 'frozenset', 'sum', 'min', 'max', 'any', 'all', 'len')


def _only_set_updates(body, set_names):
    """Loop body made of `S.add/remove/discard(..)` on sets, possibly under `if`: the final sets do not depend on the visiting order
    when the guards only test membership of the loop element (remove-the-intersection / add-the-image patterns)."""
    for st in body:
        if isinstance(st, ast.If):
            if not (_only_set_updates(st.body, set_names) and _only_set_updates(st.orelse, set_names)):
                return False
            t = st.test
            if not (isinstance(t, ast.Compare) and len(t.ops) == 1 and isinstance(t.ops[0], (ast.In, ast.NotIn))):
                return False
        elif isinstance(st, ast.Expr) and isinstance(st.value, ast.Call) and isinstance(st.value.func, ast.Attribute) \
                and st.value.func.attr in ('add', 'remove', 'discard') and _is_set_expr(st.value.func.value, set_names):
            continue
        elif isinstance(st, ast.Pass):
            continue
        else:
            return False
    return True


def scan_set_order(fn_node, qual):
    """(text, ok) for every place where the iteration order of a set can flow into a sequence."""
    set_names = set()
    for _ in range(2):
        for n in ast.walk(fn_node):
            if isinstance(n, ast.Assign) and len(n.targets) == 1 and isinstance(n.targets[0], ast.Name) and _is_set_expr(n.value, set_names):
                set_names.add(n.targets[0].id)
    parents = {}
    for n in ast.walk(fn_node):
        for c in ast.iter_child_nodes(n):
            parents[c] = n
    found = []

    def note(it, ok):
        name = it.id if isinstance(it, ast.Name) else ast.unparse(it)[:40]
        found.append((name, ok or (qual.split('.')[-1], name) in ORDER_INSENSITIVE))

    for n in ast.walk(fn_node):
        if isinstance(n, ast.For) and _is_set_expr(n.iter, set_names):
            note(n.iter, _only_set_updates(n.body, set_names))
        elif isinstance(n, (ast.ListComp, ast.GeneratorExp, ast.SetComp, ast.DictComp)):
            for g in n.generators:
                if _is_set_expr(g.iter, set_names):
                    p = parents.get(n)
                    free = isinstance(n, ast.SetComp) or (isinstance(p, ast.Call) and isinstance(p.func, ast.Name) and p.func.id in ORDER_FREE_CONSUMERS)
                    note(g.iter, free)
        elif isinstance(n, ast.Call) and isinstance(n.func, ast.Name) and n.func.id in ('list', 'tuple', 'enumerate') and n.args \
                and _is_set_expr(n.args[0], set_names):
            note(n.args[0], False)
    return found


def extra_obligations(interp, reg):
    from pyvc import frontend
    from pyvc.interp import Obligation
    obs = []
    # (3a) module RNG streams are seeded by literals at import time
    for mod, call in (('outrank/core_ranking.py', 'random.seed'), ('outrank/algorithms/feature_ranking/ranking_mi_numba.py', 'np.random.seed'),
                      ('outrank/algorithms/feature_ranking/ranking_cov_alignment.py', 'np.random.seed')):
        tree, _ = frontend.load_module(mod)
        ok = False
        for n in tree.body:
            if isinstance(n, ast.Expr) and isinstance(n.value, ast.Call) and ast.unparse(n.value.func) == call:
                vals = list(n.value.args) + [k.value for k in n.value.keywords]
                ok = bool(vals) and all(isinstance(v, ast.Constant) for v in vals)
        obs.append(Obligation(f'C09/{mod.rsplit("/", 1)[-1][:-3]}/seed_is_literal[{call}]', [], z3.BoolVal(ok),
                              text=f'{call}(<literal>) at module level of {mod}'))
    # (3b) --num_threads reaches only the Pool constructor
    tree, _ = frontend.load_module('outrank/task_ranking.py')
    uses, ok = 0, True
    parents = {}
    for n in ast.walk(tree):
        for c in ast.iter_child_nodes(n):
            parents[c] = n
    for n in ast.walk(tree):
        if isinstance(n, ast.Attribute) and n.attr == 'num_threads':
            uses += 1
            p = parents.get(n)
            if not (isinstance(p, ast.Call) and ast.unparse(p.func) == 'Pool'):
                ok = False
    obs.append(Obligation('C09/task_ranking/num_threads_only_sizes_the_pool', [], z3.BoolVal(ok and uses >= 1),
                          text=f'args.num_threads is used {uses} time(s), only as Pool(args.num_threads)'))
    # (3c) no hash-seed dependent iteration order reaches the output
    for mod, quals in PIPELINE:
        for q in quals:
            try:
                fn = frontend.load_function(mod, q)
            except Exception:
                continue
            found = scan_set_order(fn.node, q)
            bad = [name for name, ok_ in found if not ok_]
            obs.append(Obligation(f'C09/{mod.rsplit("/", 1)[-1][:-3]}.{q}/no_set_order_dependence', [], z3.BoolVal(not bad),
                                  text=f'iterations over sets: {found}; order-dependent: {bad}'))
    return obs
