"""C01 - plain estimator equals the plug-in Shannon mutual information."""
FUNCTIONS = ['numba_unique', 'compute_conditional_entropy', 'compute_entropies', 'mutual_info_estimator_numba']
LEVEL = 'proof'
EXPLANATION = ('post-conditions of numba_unique, compute_conditional_entropy, compute_entropies and '
               'mutual_info_estimator_numba against the plug-in MI spec H(Y) - sum_f (c_f/n) H(Y | X=f); loop invariants over '
               'recursive count/sum spec functions; inductive lemmas re-proved on every run')
ASSUMPTIONS = [
    'float32/fastmath rounding is not modelled (reals); bounded stand-in: real numba result vs float64 spec within 1e-4',
    'symmetry, non-negativity and the entropy upper bound are theorems about the plug-in MI; they are checked on the real '
    'estimator only as a bounded stand-in (small-scope exhaustive + seeded inputs), not re-proved',
    'np.where(X == f) returns the ascending enumeration of the matching rows (axioms where.*), np.nonzero likewise',
]
TRUSTED = ['numpy.where', 'numpy.nonzero', 'numpy.count_nonzero', 'numpy.zeros', 'numpy.max', 'numpy.log',
           'ndarray.astype', 'numba njit (compiler)']
