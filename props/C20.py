"""C20 - derived synthetic structure (correlation, labels, noise, ...) is as declared."""
import ast

import z3

FUNCTIONS = ['CategoricalClassification.generate_duplicates', 'CategoricalClassification.generate_combinations']
LEVEL = 'proof'
EXPLANATION = ('generate_duplicates / generate_combinations: contracts over a 2-D array model proved against the real bodies (appended block '
               '== the selected columns / the stated function of them, originals untouched, recorded indices == the columns added). '
               'generate_correlated: (a) NRA lemma: for unit vectors u, w with u.w = 0, corr(w + c*u, u) = c / sqrt(1 + c^2), and '
               'c = r / sqrt(1 - r^2) gives r; (b) the coefficient expression of the real source line `corr = Y[:, 1] + <coef> * Y[:, 0]` '
               '(extracted from the AST on every run, with tan(arccos r) = sqrt(1 - r^2)/r as the only trig fact) equals r / sqrt(1 - r^2). '
               'The binding of qr/dot/column_stack to u and w, quantile labels, noise and down-sampling are checked by executable '
               'contract (bounded)')
ASSUMPTIONS = ['numpy linear algebra (qr, dot, eye, diag), np.percentile, KMeans, sklearn resample are trusted; the correlation '
               'clause is lemma-level plus the extracted coefficient, the rest of generate_correlated is bounded-checked natively',
               'trig fact used: tan(arccos r) = sqrt(1 - r^2) / r for r != 0; sqrt(x) >= 0 and sqrt(x)^2 = x for x >= 0',
               'the k-means label branch is not covered at all by contracts (bounded run-time checks only in the thorough tier)']
TRUSTED = ['numpy.column_stack', 'X[:, idx] column selection', 'numpy.arange', 'numpy.sum(axis=1)', 'numpy.sin', 'numpy.arccos', 'numpy.tan', 'numpy.sqrt']

R = z3.RealSort()
SQRT = z3.Function('np_sqrt', R, R)


def sqrt_facts(terms):
    fs = []
    for t in terms:
        fs.append(z3.Implies(t >= 0, z3.And(SQRT(t) >= 0, SQRT(t) * SQRT(t) == t)))
    return fs


class Arccos:
    def __init__(self, arg):
        self.arg = arg


def ev(node, env, sq):
    if isinstance(node, ast.Name):
        if node.id not in env:
            raise KeyError(node.id)
        return env[node.id]
    if isinstance(node, ast.Constant) and isinstance(node.value, (int, float)):
        return z3.RealVal(repr(node.value))
    if isinstance(node, ast.UnaryOp) and isinstance(node.op, ast.USub):
        return -ev(node.operand, env, sq)
    if isinstance(node, ast.BinOp):
        a, b = ev(node.left, env, sq), ev(node.right, env, sq)
        if isinstance(node.op, ast.Pow):
            n = z3.simplify(b)
            if z3.is_rational_value(n) and n.as_fraction() == 2:
                return a * a
            raise ValueError('power')
        return {ast.Add: lambda: a + b, ast.Sub: lambda: a - b, ast.Mult: lambda: a * b, ast.Div: lambda: a / b}[type(node.op)]()
    if isinstance(node, ast.Call) and isinstance(node.func, ast.Attribute) and getattr(node.func.value, 'id', '') == 'np':
        f = node.func.attr
        if f == 'arccos':
            return Arccos(ev(node.args[0], env, sq))
        if f == 'tan':
            x = ev(node.args[0], env, sq)
            if isinstance(x, Arccos):
                t = 1 - x.arg * x.arg
                sq.append(t)
                return SQRT(t) / x.arg           # tan(arccos y) = sqrt(1 - y^2) / y
            raise ValueError('tan of a non-arccos term')
        if f == 'sqrt':
            t = ev(node.args[0], env, sq)
            sq.append(t)
            return SQRT(t)
        if f == 'abs':
            t = ev(node.args[0], env, sq)
            return z3.If(t >= 0, t, -t)
    raise ValueError('expression outside the modelled subset: ' + ast.dump(node)[:80])


def correlation_coefficient_obligation():
    from pyvc import frontend
    from pyvc.interp import Obligation
    name = 'C20/cc_generator.CategoricalClassification.generate_correlated/coefficient[corr = Y[:, 1] + coef * Y[:, 0]]'
    fn = frontend.load_function('outrank/algorithms/synthetic_data_generators/cc_generator.py', 'CategoricalClassification.generate_correlated')
    r = z3.Real('r')
    env, sq = {'r': r}, []
    coef = None
    for n in ast.walk(fn.node):
        if isinstance(n, ast.Assign) and len(n.targets) == 1 and isinstance(n.targets[0], ast.Name):
            tgt = n.targets[0].id
            if tgt == 'corr' and isinstance(n.value, ast.BinOp) and isinstance(n.value.op, ast.Add) \
                    and isinstance(n.value.right, ast.BinOp) and isinstance(n.value.right.op, ast.Mult):
                try:
                    coef = ev(n.value.right.left, env, sq)
                except Exception:
                    coef = None
            else:
                try:
                    env[tgt] = ev(n.value, env, sq)
                except Exception:
                    pass
    if coef is None or isinstance(coef, Arccos):
        ob = Obligation(name + '.unbound', [], z3.BoolVal(True), kind='cover', expect='sat', text='coefficient expression not found in the source: UNBOUND')
        return [ob]
    t = 1 - r * r
    sq.append(t)
    pre = [r > -1, r < 1, r != 0] + sqrt_facts(sq)
    return [Obligation(name, pre, coef == r / SQRT(t), text='coef == r / sqrt(1 - r^2) for all r in (-1, 1), r != 0')]


def correlation_lemma():
    """for mean-zero unit vectors u, w with u.w = 0 and y = w + c*u: corr(y, u) = (y.u)/sqrt(y.y * u.u) = c / sqrt(1 + c^2);
    with c = r / sqrt(1 - r^2) this equals r.  Dot products are abstracted to reals."""
    from pyvc.interp import Obligation
    r, c, uu, ww, uw = z3.Reals('r c uu ww uw')
    yu = uw + c * uu
    yy = ww + 2 * c * uw + c * c * uu
    s = 1 - r * r
    pre = [r > -1, r < 1, uu == 1, ww == 1, uw == 0, c * SQRT(s) == r] + sqrt_facts([s, yy * uu])
    goal = yu == r * SQRT(yy * uu)           # corr = yu / sqrt(yy * uu) == r
    return [Obligation('C20/lemma.corr_identity', pre, goal, text='corr(w + c*u, u) == r when c = r / sqrt(1 - r^2), u,w orthonormal')]


def extra_obligations(interp, reg):
    return correlation_lemma() + correlation_coefficient_obligation()
