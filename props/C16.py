"""C16 - line parsers keep every field in its column and never mis-align."""
FUNCTIONS = ['parse_ob_line', 'parse_ob_csv_line', 'generic_line_parser']
FRAME_ONLY = ['parse_ob_line_vw']       # assumed function symbol of the dispatcher's contract: its frame is checked syntactically
LEVEL = 'proof'
EXPLANATION = ('contracts over opaque strings with the str / csv library laws as named axioms: parse_ob_line returns exactly the fields '
               'of every rendered tab-separated line (for all field lists without delimiter / line break, empty fields anywhere, every '
               'terminator); parse_ob_csv_line returns the csv reader\'s first record unmodified; generic_line_parser dispatches each '
               'supported data source to its parser and rejects unknown sources.  The VW parser (whose result the dispatcher\'s contract treats as a function of '
               'line, namespace map and header: its frame - no module-level mutable state, object identity, RNG, clock, files - is a '
               'syntactic obligation) and the namespace-map reader are checked by executable contract only (bounded); the field-count rule is the loop contract of C08')
ASSUMPTIONS = ['str laws (cross-checked natively on every run): split(join(F, d), d) == F for d-free fields; (p + terminator).rstrip("\\r\\n") == p '
               'for p without line breaks; p + "" == p', 'csv.reader implements the csv dialect (round trip with csv.writer is cross-checked natively)',
               'VW semantics as implemented: tokens joined by "-", the first two characters of the joined value removed (the statement can '
               'also be read per token: multi-token namespaces then differ - documented, not claimed)']
TRUSTED = ['str.split', 'str.join', 'str.rstrip', 'csv.reader', 'list.pop']
