"""C14 - cardinality sketch: exact while warm, within 2% beyond, duplicate-blind."""
FUNCTIONS = ['HyperLogLogWCache._hasher_update', 'HyperLogLogWCache.add', 'HyperLogLogWCache.__len__']
LEVEL = 'proof'
EXPLANATION = ('class invariant of HyperLogLogWCache over a ghost set `seen` of all values ever added, proved for `add` against the '
               'real body: exact phase (warmup_set == seen, len == |seen|) is kept while |seen + {v}| <= 2^18; re-adding a seen '
               'value changes nothing in either phase (registers: max is idempotent because every seen value is already '
               'registered, loop invariant of the one-time conversion); the switch happens only for a new value at capacity and '
               'registers that value too; __len__ is the set size / the linear-counting function of the number of empty registers. '
               'The 2% accuracy clause is a statement about xxh32 on the input family: bounded stand-in only')
ASSUMPTIONS = ['xxh32 is an uninterpreted deterministic function with values in [0, 2^32); int.bit_length(w) <= 13 for w < 2^13',
               'values are strings (the ranking pipeline adds hex digests); set size is the number of distinct members',
               '"within 2% up to 2^21" is NOT proved: bounded run-time check on a seeded string family (labelled bounded)',
               'order-independence in the exact phase: the state is a set (follows from the exact-phase invariant)']
TRUSTED = ['xxhash.xxh32', 'int.bit_length', 'set.add / len(set)', 'numpy.zeros', 'numpy.where', 'numpy.ceil', 'numpy.divide', 'numpy.log']
