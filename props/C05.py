"""C05 - each emitted score is the selected heuristic applied to the two coded columns."""
FUNCTIONS = ['conduct_feature_ranking', 'generate_data_for_ranking', 'get_importances_estimate_pairwise', 'max_pair_coverage',
             'numba_mi', 'mixed_rank_graph']
LEVEL = 'proof'
EXPLANATION = ('dispatch contract of conduct_feature_ranking: one obligation per documented / statement heuristic name (the path '
               'taken under heuristic == name returns that name\'s scorer; names are concrete strings on each path); role contract '
               'of generate_data_for_ranking (label is the conditioning side); get_importances_estimate_pairwise returns the '
               'original names with that score; max_pair_coverage == largest joint-value frequency (loop invariant over cnt2); '
               'numba_mi flag/roles; mixed_rank_graph rows carry pair_score on the coded frame')
ASSUMPTIONS = ['sklearn mutual_info_classif / adjusted_mutual_info_score / scipy pearsonr compute what their names say: assumed '
               'contracts (deterministic function symbols)', 'pandas category coding is an injective per-column coding (assumed statement contract)',
               'documented names are extracted by the native harness on every run (regular expression over examples/, scripts/, '
               'benchmarks/, README.md, docs/, __main__.py, core_utils.py); surrogate-* excluded as in the statement']
TRUSTED = ['sklearn_MI', 'sklearn_mi_adj', 'scipy.stats.pearsonr', 'sklearn_surrogate', 'collections.Counter', 'max over dict.values()']
