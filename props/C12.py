"""C12 - transformations compute what their names say; degenerate ones are dropped."""
import ast
import json
import os
import re
import subprocess

import z3

FUNCTIONS = ['FeatureTransformerGeneric.__init__', 'FeatureTransformerGeneric.get_vals']
LEVEL = 'proof'
EXPLANATION = ('(1) one obligation per entry of the minimal / default / fw-transformers presets: for all real X, the symbolic value of '
               'the formula TEXT taken from the real vault modules (imported on every run) equals the function derived from the '
               'entry NAME (fw family: resolution and threshold parsed from the name); sqrt/log/round uninterpreted.  (2) loop '
               'contract of the preset merge in FeatureTransformerGeneric.__init__ (collection == union of the presets listed, later '
               'ones win).  (3) get_vals: empty string -> 0, quotes removed, else float.  (4) the keep/drop rule of '
               'construct_new_features is checked by executable contract only (the loop evals formula strings; labelled bounded)')
ASSUMPTIONS = ['numpy element-wise semantics over mathematical reals; np.sqrt/np.log/np.round uninterpreted (so NaN/domain behaviour '
               'is not modelled: negative inputs are covered by the bounded native grid only)',
               'textual rendering astype(str) of floats is trusted',
               'keep/drop rule (distinct > 1, majority < 80%, NaN < 75%): bounded stand-in on the real construct_new_features']
TRUSTED = ['numpy.where', 'numpy.round', 'numpy.sqrt', 'numpy.log', 'numpy.abs', 'numpy.divide', 'numpy.power', 'numpy.max',
           'str.split', 'dict merge {**a, **b}', 'str.replace', 'float(str)']

R = z3.RealSort()
SQRT = z3.Function('np_sqrt', R, R)
LOGF = z3.Function('log', R, R)
ROUND = z3.Function('np_round0', R, R)
X = z3.Real('X')
MAXX = z3.Real('max_of_X')
# the only facts assumed about the uninterpreted numpy functions (so that e.g. `X > g` / `X >= g` are told apart only
# where they really differ: sqrt(0)*r rounds to 0, log(0) does not)
FACTS = [SQRT(z3.RealVal(0)) == 0, ROUND(z3.RealVal(0)) == 0, LOGF(z3.RealVal(1)) == 0]


def load_vault():
    from pyvc import frontend
    verif = os.path.dirname(os.path.dirname(os.path.abspath(__file__)))
    scratch = os.path.join(verif, '.scratch', f'C12-vault-{os.getpid()}')
    os.makedirs(scratch, exist_ok=True)
    # nothing is written next to the sources (numba cache, byte code) and nothing under /tmp is needed
    env = dict(os.environ, PYTHONPATH=frontend.repo_root(), PYTHONDONTWRITEBYTECODE='1', NUMBA_CACHE_DIR=os.path.join(scratch, 'numba'),
               PYTHONPYCACHEPREFIX=os.path.join(scratch, 'pyc'))
    code = ('import json; import outrank.feature_transformations.feature_transformer_vault as v; '
            'print("VAULT" + json.dumps({k: dict(d) for k, d in v._tr_global_namespace.items()}))')
    p = subprocess.run(['/venv/bin/python', '-c', code], env=env, capture_output=True, text=True, cwd=scratch, timeout=300)
    subprocess.run(['rm', '-rf', scratch])
    line = [l for l in p.stdout.splitlines() if l.startswith('VAULT')]
    if not line:
        raise RuntimeError('cannot import the transformer vault: ' + p.stderr[-500:])
    return json.loads(line[0][5:])


def num(s):
    return z3.RealVal(s)


def ev(node):
    if isinstance(node, ast.Expression):
        return ev(node.body)
    if isinstance(node, ast.Name) and node.id == 'X':
        return X
    if isinstance(node, ast.Constant) and isinstance(node.value, (int, float)):
        return num(repr(node.value))
    if isinstance(node, ast.BinOp):
        a, b = ev(node.left), ev(node.right)
        return {ast.Add: lambda: a + b, ast.Sub: lambda: a - b, ast.Mult: lambda: a * b, ast.Div: lambda: a / b}[type(node.op)]()
    if isinstance(node, ast.UnaryOp) and isinstance(node.op, ast.USub):
        return -ev(node.operand)
    if isinstance(node, ast.Compare) and len(node.ops) == 1:
        a, b = ev(node.left), ev(node.comparators[0])
        return {ast.Lt: a < b, ast.Gt: a > b, ast.LtE: a <= b, ast.GtE: a >= b, ast.NotEq: a != b, ast.Eq: a == b}[type(node.ops[0])]
    if isinstance(node, ast.Call) and isinstance(node.func, ast.Attribute) and getattr(node.func.value, 'id', '') == 'np':
        f = node.func.attr
        a = [ev(x) for x in node.args]
        if f == 'where' and len(a) == 3:
            return z3.If(a[0], a[1], a[2])
        if f == 'sqrt':
            return SQRT(a[0])
        if f == 'log':
            return LOGF(a[0])
        if f == 'abs':
            return z3.If(a[0] >= 0, a[0], -a[0])
        if f == 'round' and (len(a) == 1 or z3.simplify(a[1] == 0)):
            return ROUND(a[0])
        if f == 'divide' and len(a) == 2:
            return a[0] / a[1]
        if f == 'power' and z3.is_rational_value(z3.simplify(a[1])) and z3.simplify(a[1]).as_long() in (2, 3):
            r = a[0]
            for _ in range(z3.simplify(a[1]).as_long() - 1):
                r = r * a[0]
            return r
        if f == 'max' and a[0].eq(X):
            return MAXX
    raise ValueError('formula outside the modelled numpy subset: ' + ast.dump(node)[:120])


DEFAULT_SPECS = {
    '_tr_sqrt': lambda x: SQRT(x),
    '_tr_log(x+1)': lambda x: LOGF(x + 1),
    '_tr_sqrt(abs(x))': lambda x: SQRT(z3.If(x >= 0, x, -x)),
    '_tr_log(abs(x)+1)': lambda x: LOGF(z3.If(x >= 0, x, -x) + 1),
    '_tr_div(x,abs(x))*log(abs(x))': lambda x: (x / z3.If(x >= 0, x, -x)) * LOGF(z3.If(x >= 0, x, -x)),
    '_tr_log(x + sqrt(pow(x,2), 1)': lambda x: LOGF(x + SQRT(x * x + 1)),
    '_tr_log*sqrt': lambda x: LOGF(x + 1) * SQRT(x),
    '_tr_log*100': lambda x: ROUND(LOGF(x + 1) * 100),
    '_tr_nonzero': lambda x: z3.If(x != 0, z3.RealVal(1), z3.RealVal(0)),
    '_tr_round(div(x,max))': lambda x: ROUND(x / MAXX),
}
FW = re.compile(r'^_tr_fw(_prob)?_(sqrt|log)_res_([0-9.]+)_gt_([0-9.]+)$')


def spec_from_name(name):
    m = FW.match(name)
    if m:
        op = SQRT if m.group(2) == 'sqrt' else LOGF
        res, gt = num(m.group(3)), num(m.group(4))
        return z3.If(X < gt, X, z3.If(X > gt, ROUND(op(X - gt) * res), z3.RealVal(0)))
    if name in DEFAULT_SPECS:
        return DEFAULT_SPECS[name](X)
    return None


def extra_obligations(interp, reg):
    from pyvc.interp import Obligation
    vault = load_vault()
    obs = []
    seen = set()
    for preset in ('minimal', 'default', 'fw-transformers'):
        for name, text in vault.get(preset, {}).items():
            if (name, text) in seen:
                continue
            seen.add((name, text))
            oname = f'C12/vault[{preset}].formula[{name}]'
            spec = spec_from_name(name)
            if spec is None:
                obs.append(Obligation(oname + '.name_has_no_spec', [], z3.BoolVal(False), text=f'{name}: {text}'))
                continue
            try:
                val = ev(ast.parse(text.strip(), mode='eval'))
            except Exception as e:
                obs.append(Obligation(oname + '.unmodelled', [], z3.BoolVal(False), text=f'{text}: {e}'))
                continue
            obs.append(Obligation(oname, list(FACTS), val == spec, text=f'for all X: {text}  ==  spec({name})'))
    return obs
