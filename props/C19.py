"""C19 - synthetic categorical data respects its declared shape, domains and seed."""
FUNCTIONS = ['CategoricalClassification._generate_feature']
LEVEL = 'proof'
EXPLANATION = ('contract of _generate_feature proved against the real body over trusted numpy.random contracts: one int32 value per '
               'sample, every value inside the declared domain (default range / explicit list / random draw within the bounds) and, '
               'with ensure_rep and len(domain) <= size, every domain value represented (through np.append + shuffle as a '
               'permutation).  generate_data (structure interpretation, gap filling, column positions), reproducibility and the '
               'naive generator are checked by executable contract (bounded): the structure description is heterogeneously typed '
               'python data outside the engine\'s value model')
ASSUMPTIONS = ['np.random.choice draws members of its first argument (pairwise distinct positions when replace=False); np.random.shuffle '
               'is a permutation; scipy norm.pdf is strictly positive; values fit int32 (pre-condition)',
               'distribution of the draws is not modelled at all', 'same seed -> same data: the generators draw only from the numpy '
               'global stream re-seeded at entry (bounded check: two runs compared)']
TRUSTED = ['numpy.random.choice', 'numpy.random.randint', 'numpy.random.shuffle', 'numpy.arange', 'numpy.append', 'scipy.stats.norm.pdf', 'ndarray.astype']
