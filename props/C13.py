"""C13 - data-quality statistics are exact and independent of the batch split."""
FUNCTIONS = ['compute_value_counts', 'PrimitiveConstrainedCounter.add', 'HyperLogLogWCache.add']
LEVEL = 'proof'
EXPLANATION = ('rare-value store: class invariant of compute_value_counts over a ghost history (total occurrences of every '
               '(column, value) in all consumed rows): retired == {k : total[k] > threshold}, store == total below the threshold - '
               'proved to be re-established by one batch for total + (occurrences in the batch), i.e. the state is a function of the '
               'multiset of rows (4 loop invariants against the real body).  The sketches it feeds are the contracts of C14/C15 '
               '(re-verified here).  Coverage, cardinality feeding and the repetition counter at its bound are covered by executable '
               'contracts over every composition of the row count (bounded)')
ASSUMPTIONS = ['compute_coverage / compute_cardinalities hold dictionaries of sketch objects (outside the engine\'s value model): '
               'bounded stand-in on the real functions over all compositions of up to 10 rows',
               'name annotation (task_ranking.py:245-266), histogram export (280-286) and summarize_rare_counts are straight-line '
               'pandas/json code inside functions outside the subset: not under contract',
               'column names of a batch are distinct']
TRUSTED = ['collections.Counter', 'set.add', 'dict.items() iteration', 'pandas column access']
