"""C08 - streaming equals reference batch semantics with median aggregation."""
FUNCTIONS = ['estimate_importances_minibatches']
FRAME_ONLY = ['get_grouped_df']       # the median table is an assumed function symbol of its argument: its frame is a syntactic obligation
LEVEL = 'proof'
EXPLANATION = ('loop contract of estimate_importances_minibatches over the abstract sequence of data lines with abstract callees '
               '(parse = the dispatcher\'s function symbol, Rank = batch_triplets(rows, batch number), median table, checkpoint file as a '
               'ghost global): after k lines the position counter is k, the invalid counter is the number of selected malformed rows, the '
               'buffer holds the rows after the last full batch (rank-style against the ghost list of consumed rows), the accumulated '
               'triplets are the concatenation of the batch results in order, and the checkpoint holds the median table of everything '
               'processed; post: tail used iff more than 1024 rows remain, result == median table of all triplets')
ASSUMPTIONS = ['file iteration yields the header and then the data lines in order (assumed statement contracts on open/gzip.open)',
               'Rank(rows, state) is a function of the batch rows and the number of batches ranked before (compute_batch_ranking is an '
               'assumed contract here; its parts are C05/C06/C07/C10/C11/C13)', 'pandas groupby.median / to_csv are trusted (get_grouped_df, '
               'checkpoint_importances_df are assumed contracts); the final sort/write (task_ranking.py:274-278) is checked end to end only',
               'heuristic Constant writes no per-batch checkpoint (only the tail does): the checkpoint clause is claimed for scoring heuristics',
               'coverage bookkeeping (local_coverage_object) and progress bars are inert for this property']
TRUSTED = ['open / gzip.open (line iteration)', 'compute_batch_ranking (assumed contract)', 'get_grouped_df (median table)', 'checkpoint_importances_df', 'tqdm']
