"""C06 - the rank graph covers exactly the requested pairs, in both orientations."""
FUNCTIONS = ['get_combinations_from_columns', 'mixed_rank_graph']
LEVEL = 'proof'
EXPLANATION = ('membership-level contract of get_combinations_from_columns (target-only / pairwise / 3mr, cap side effect) proved '
               'against the real body through statement-level summaries; contract of mixed_rank_graph: the evaluated pairs are the '
               'capped sample (callee contracts of the enumerator and of the fair sampler) of the enumerated pairs, the Constant '
               'branch lists each pair once with 0.0 and the mirroring loop emits both orientations with one score (loop invariants)')
ASSUMPTIONS = ['column names are compared by equality and by the substring test " AND_REL " only (opaque strings)',
               'column names of a batch are distinct and the label column is present',
               'reference-model (prior) heuristics are outside this contract (requires reference_model_JSON == "")',
               'pandas category coding, the process pool and random.shuffle are assumed contracts (listed under trusted_base)']
TRUSTED = ['itertools.combinations_with_replacement', 'sorted', 'set', 'pathos ProcessingPool.amap (ordered map, isolated workers)',
           'random.shuffle (a permutation)', 'pandas astype(category).cat.codes (injective coding per column)']
