"""C18 - feature summary = per-feature median of label scores, sorted, normalised."""
FUNCTIONS = ['generate_final_ranking', 'create_final_dataframe']
LEVEL = 'proof'
EXPLANATION = ('loop contract of generate_final_ranking (rank-style invariant: the j-th selected row sits at position j with the '
               'non-label name and its score) and contract of create_final_dataframe over compositional pandas stubs (groupby.median: '
               'one row per distinct name with the group median; sort_values: an ordered permutation): every feature exactly once, '
               'median, descending, and for MI heuristics best = 1, worst = 0 and the median order is preserved (real arithmetic). '
               'The per-constituent aggregation of interaction scores is checked by executable contract (bounded)')
ASSUMPTIONS = ['pandas groupby().median(), reset_index(), sort_values(), DataFrame(list, columns) behave as their stubs say (trusted)',
               'MI normalisation needs at least two different medians (otherwise the code divides by zero -> NaN): pre-condition',
               'a label or feature name containing "-" is matched through the text before the first "-" exactly as the code does '
               '(names of that shape are candidates for mis-selection: documented in DESIGN, not claimed)']
TRUSTED = ['pandas.DataFrame', 'DataFrame.groupby.median', 'DataFrame.sort_values', 'DataFrame.iterrows', 'Series.min/max', 'str.split']
