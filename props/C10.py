"""C10 - interaction features represent joint values faithfully."""
import z3

FUNCTIONS = ['compute_combined_features.length_prefixed', 'compute_combined_features.combine_features', 'compute_combined_features']
LEVEL = 'proof'
EXPLANATION = ('contract on the real nested function combine_features (for every frame of strings, every order k >= 1, every row pair): the '
               'returned name is join_string.join(constituents); one value per row; two rows get equal interaction values IF AND ONLY IF they '
               'agree on every constituent (loop invariant: value_so_far ++ lpcat(rest) == lpcat(all), with lpcat the concatenation of the '
               'length-prefixed cells; lemma lpcat_faithful by induction over the number of remaining constituents from the prefix-code lemma; '
               'xxh64 idealised as collision free, as the statement allows).  The string laws the proof uses (associativity, str(int) has no ":" '
               'and is injective, first-colon split, equal-length cancellation) are each proved in the SMT-LIB theory of unbounded strings by '
               'z3 / cvc5 on every run.  Ownership obligation: the in-place += only ever updates a Series created in this call (so neither the '
               'frame nor a cached object is modified).  Score equality follows from equality of the induced partitions (C01: the estimator is a '
               'function of the joint counts).  The enclosing compute_combined_features is proved against the callee contracts (sampler of C07, '
               'combine_features) and the frame stubs: original columns first and untouched, row alignment, at most `cap` candidates, each a '
               'k-selection of non-label columns (k = interaction order, 2 for 3MR), and every appended column is named " AND ".join(candidate) '
               '(" AND_REL " for 3MR) and is faithful to that candidate.  That the candidate space is ALL k-subsets (completeness of '
               'itertools.combinations) and the reference-model / prior branches are checked by executable contract only (bounded)')
ASSUMPTIONS = ['pandas: Series.astype(str) / map / apply are element-wise and return new objects; Series + Series over the same RangeIndex is '
               'element-wise; cells are str (the pipeline builds the frame from parsed strings)',
               'xxh64 collision freedom (stated in the property); str.encode("utf-8") injective',
               'new_combination modelled as a list (it is a tuple: same indexing / slicing / join semantics)',
               'itertools.combinations(pool, k) yields k-selections at increasing positions, pairwise different (completeness not modelled); reference_model_JSON == "" (the prior / reference-model branches are outside the contract)', 'pandas DataFrame(dict) / concat(axis=1) as in C11']
TRUSTED = ['itertools.combinations', 'pandas.DataFrame', 'pandas.concat', 'Series.astype', 'Series.map', 'Series.apply', 'Series.__add__', 'xxhash.xxh64', 'str.join', 'str.encode']
LEMMAS = ['lpcat_faithful', 'lp_prefix_code']


def extra_obligations(interp, reg):
    """The concatenation laws of the opaque string sort, proved about real strings (SMT-LIB theory of strings, unbounded)."""
    from pyvc import stubs
    from pyvc.interp import Obligation
    obs = []
    for name, f in stubs.string_law_twins():
        obs.append(Obligation(f'C10/string_law.{name}', [], f, text=f'string law {name} in the theory of strings'))
    return obs
