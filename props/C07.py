"""C07 - capped combination sampling is fair over any sequence of batches."""
FUNCTIONS = ['prior_combinations_sample', 'lemma_fair_step', 'lemma_disjoint_call_keeps_fair']
LEVEL = 'proof'
EXPLANATION = ('contract of prior_combinations_sample (stable-sort prefix, counter increments, frame) proved against the real '
               'body with the global counter as explicit state; the history part is an induction over that contract: lemma '
               'functions fair_step (one call on a duplicate-free list preserves |C[x]-C[y]| <= 1, selects exactly '
               'min(cap, n) distinct candidates, count increments == selection) and disjoint_call_keeps_fair (frame) are '
               'verified by the same engine against the callee contract only, for every cap and every counter state')
ASSUMPTIONS = ['candidates are hashable values compared by equality (uninterpreted sort Comb)',
               'sorted() is a stable permutation ordered by key; Counter has default 0; set iteration order arbitrary',
               'the export to combination_estimation_counts.json (task_ranking.py:288-290) is a key-wise copy: not under contract '
               '(the enclosing function is outside the subset); listed as unverified']
TRUSTED = ['sorted (stable permutation by key)', 'set / set.difference / dict.keys', 'collections.Counter', 'list slicing']
