"""C17 - 3MR ranking is a greedy-optimal permutation of the features."""
FUNCTIONS = ['rank_features_3MR.calc_higher_order', 'rank_features_3MR']
LEVEL = 'proof'
EXPLANATION = ('loop contracts of rank_features_3MR proved against the real body: outer invariant (ranked list duplicate-free, '
               'inside the feature set, first element of maximal relevance, every later element maximises relevance - alpha*agg(redundancy) '
               '+ beta*agg(relation) over the features not ranked before it), inner invariant over an ARBITRARY iteration order of the '
               'remaining set (best-so-far with -inf as an extended real), termination measure; the nested calc_higher_order has its own '
               'contract; aggregates median/mean/sum are one uninterpreted function shared by code and spec')
ASSUMPTIONS = ['scores are finite reals (no NaN); np.median/np.mean/sum depend only on the listed values (extensionality axiom)',
               'the construction of the three dictionaries from the triplets (task_ranking.py:165-241) is pandas code outside the subset: not under contract',
               'finite-set facts: |set(L)| = len(L) for duplicate-free L, |A - B| = |A| - |B| for B subset of A']
TRUSTED = ['numpy.median', 'numpy.mean', 'sum', 'max(dict.items(), key=itemgetter(1))', 'set difference / iteration', 'pandas.DataFrame(dict of lists)']
