"""C02 - scores depend on co-occurrence structure, not on numeric codes; self-pair shortcut exact."""
FUNCTIONS = ['numba_unique', 'compute_entropies', 'mutual_info_estimator_numba']
LEVEL = 'proof'
EXPLANATION = ('(a) code == spec for both flag values (shared obligations of C01/C03); (c) obligation selfpair: the '
               'correction is switched off exactly when the two vectors are element-wise identical; the spec functions '
               '(cnt, where_idx, cntg, ...) test codes by equality only.  (b) invariance of the spec under injective '
               'relabeling is NOT machine-proved here (needs a permutation-of-finite-sums lemma); it is covered by a bounded '
               'stand-in on the real estimator (random injective relabelings of every small-scope pair)')
ASSUMPTIONS = ['relabeling invariance of the spec function itself: bounded stand-in only (labelled bounded, not proved)']
TRUSTED = ['numpy.array_equal', 'numpy.where', 'numpy.nonzero', 'numpy.count_nonzero', 'numba njit (compiler)']
