"""C04 - sub-sampled estimation is memory-safe, deterministic, sample-only."""
FUNCTIONS = ['stratified_subsampling', 'mutual_info_estimator_numba', 'compute_entropies']
LEVEL = 'proof'
EXPLANATION = ('contract of stratified_subsampling (per-stratum prefix view via offs/where_idx), auto-generated safety '
               'obligations: bounds of every gather, slice-store bounds, and *definedness* of every np.empty cell that is read '
               '(which is what covers all allocator histories); top-level result == r * entropies(sample)')
ASSUMPTIONS = ['determinism: the verified functions read only their parameters (no RNG, no globals) - by construction of the VCs',
               'sample-only at the level of the whole estimator is a bounded stand-in (rows outside the sample altered on the real code)']
TRUSTED = ['numpy.empty (cells undefined until written)', 'numpy.where', 'ndarray.astype', 'numba njit (compiler)']
