"""C15 - frequency sketches err on one side only."""
FUNCTIONS = ['cms_hash', 'CountMinSketch._add', 'CountMinSketch.add', 'CountMinSketch.batch_add', 'CountMinSketch.query', 'lemma_cms_add_preserves', 'lemma_cms_query_bounds',
             'PrimitiveConstrainedCounter.add']
LEVEL = 'proof'
EXPLANATION = ('contracts of cms_hash, CountMinSketch._add (loop invariant: rows < i updated at the hashed cell, rows >= i '
               'untouched) and query (row-wise minimum) proved against the real bodies; the class invariant (every cell >= 0, '
               'every row sums to the total weight, M[r][h_r(y)] >= weight(y)) is carried by two lemma functions over those '
               'contracts (add preserves it; query is between the true weight and the total); the public add and batch_add of the real class are '
               'proved to re-establish that invariant for weight + delta at x, and for weight + delta * (occurrences in the batch) (loop invariant '
               'over the batch, the callee\'s ghost history supplied as ghost arguments).  PrimitiveConstrainedCounter.add '
               'is proved against a ghost history (true counts, distinct seen, refused)')
ASSUMPTIONS = ['python/numba hash(x) is an uninterpreted deterministic function; np.uint32 wraps modulo 2^32',
               'int32 cells do not overflow: pre-condition total + delta < 2^31 (the class never checks it)',
               'the ghost history (weight of every item, total weight) is passed to callee contracts as ghost arguments; batch weights are the linear recursions wcnt / wtot (delta * count written without multiplication)',
               'PrimitiveConstrainedCounter.batch_add is outside the statement ("fed item by item")']
TRUSTED = ['hash', 'numpy.uint32', 'min over a generator', 'collections.Counter (default 0, len = number of keys)',
           'numba njit (compiler)']
