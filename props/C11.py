"""C11 - feature construction is additive, row-aligned and follows its stated rule."""
FUNCTIONS = ['compute_expanded_multivalue_features', 'compute_subfeatures']
LEVEL = 'proof'
EXPLANATION = ('contract on the real compute_expanded_multivalue_features, for every frame of strings (>= 1 row), every list of exploded features and every '
               'missing-symbol list: the result has the original columns first, the same row count, untouched original values, and every appended column is '
               'named MULTIEX-<feature>-<token> and is "1" exactly on the rows whose value (split at "," and "-") contains the token, "" elsewhere (four nested '
               'loop invariants; the dictionary of new columns carries the rule as an invariant).  Two obligations come from the pandas stubs themselves: '
               'pd.DataFrame(dict) needs columns of one length, and pd.concat(axis=1) needs the appended block to have exactly the frame\'s row count - '
               'that is the row-alignment half of the property.  compute_subfeatures is proved the same way (six loops): originals first and untouched, row alignment, and every appended column is either a one-sided sub-feature SUBFEATURE-<a>&<v> carrying a + "AND" + b exactly on the rows where b == v ("" elsewhere) or a two-sided SUBFEATURE|<a>|<b>-<va>&<vb> that is "1" exactly where (a, b) == (va, vb) and "0" elsewhere.  Noise controls, transformations and the whole constructor pipeline under '
               'all 32 flag subsets are checked by executable contract (bounded)')
ASSUMPTIONS = ['pandas: DataFrame(dict of equal-length lists) has one column per key over a RangeIndex; concat(axis=1) of two RangeIndex frames with equal '
               'row counts puts the columns side by side; df[name].values.tolist() are the cells of the column (all str)',
               'an appended column whose name equals an existing column is outside the contract (df[name] would be ambiguous)',
               'str.split / str.replace are uninterpreted (the rule is stated with the same operations: split at "-" after replacing "," by "-")',
               'iteration order of a set is arbitrary but each element is visited once',
               'include_noisy_features, enrich_with_transformations, compute_batch_ranking: bounded stand-in only', 'Series.unique() returns each distinct cell once; df[[a, b]] is the sub-frame of those columns; the mapping string is well formed (each pair has exactly one operator and names two columns)']
TRUSTED = ['Series.unique', 'Series.tolist', 'pandas.DataFrame', 'pandas.concat', 'str.split', 'str.replace', 'set.union', 'sorted']
