#!/bin/bash
# tools/seed3_run.sh <Cxx> : run the check against each round-3 change of a property on a scratch copy; one line per change
p=$1
cd "$(dirname "$0")/.."
for k in 1; do
  f=seeded/$p-round6/patch$k.diff
  [ -f "$f" ] || continue
  out=$(tools/mutant_run.sh "$f" "$p" 2>&1)
  line=$(echo "$out" | grep -E "^$p:" | tail -1)
  rc=$(echo "$out" | grep -o "MUTANT-EXIT [0-9]*" | tail -1)
  viol=$(echo "$out" | grep -c "^VIOLATION")
  first=$(echo "$out" | grep "^VIOLATION" | head -1 | sed 's/.*obligation=//' | cut -c1-90)
  und=$(echo "$out" | grep -E "^(UNDECIDED|UNBOUND|CHECKER)" | head -2 | cut -c1-110 | tr '\n' '|')
  echo "$p#$k $rc violations=$viol first=[$first] $und"
done
