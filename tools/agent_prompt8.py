import sys, json, glob, os
pid = sys.argv[1]
txt = open(f'/tmp/prop-{pid}.txt').read()
prev = json.load(open('/tmp/c10/avoid.json')).get(pid, [])
avoid = '; '.join(prev)
W = f'/tmp/wt8-{pid}'
print(f"""You are helping test a verification framework by producing realistic, SUBTLE defects for a Python project. Work ONLY inside the git worktree {W} (a checkout of the project outbrain/outrank, a feature-ranking CLI/library). Do not read or touch /verif or /repo. Do not commit anything. Do NOT use `git stash` (the stash is shared between worktrees and other people are working in sibling worktrees); switch between variants with `git -C {W} checkout -- outrank` (back to the unmodified code) and `git -C {W} apply seed_out/<file>`.

The property that each of your changes must BREAK:

---
{txt}
---

Task: produce ONE small source change (a few lines) under {W}/outrank. It must break this property while (1) the package still imports/compiles, and (2) the existing test suite still passes exactly as before (all 58 tests pass on the unmodified tree and must pass with each change). Each change should need something SPECIFIC to manifest (a multi-step sequence of operations, an unusual input or boundary value, a particular configuration/flag combination, or two cooperating sites that each look fine alone) rather than something ordinary use would expose at once, and should look like a plausible mistake or "optimisation". Already explored, so choose other mechanisms: {avoid}.

How to run things (use exactly this environment so the worktree's code is what runs):
  cd {W} && NUMBA_CACHE_DIR={W}/.numba_cache PYTHONPATH={W} /venv/bin/python -c "import outrank; print(outrank.__file__)"   # must print a path under {W}
  cd {W} && NUMBA_CACHE_DIR={W}/.numba_cache PYTHONPATH={W} /venv/bin/python -m pytest -q -p no:cacheprovider --timeout=900 tests/
Always set NUMBA_CACHE_DIR as shown. There is no network.

Deliverables (write them into {W}/seed_out/):
  patch1.diff - the output of `git -C {W} diff -- outrank` for that change alone (relative to the unmodified code).
  demo1.py - a small standalone program; demoK.py (K=1) exits 0 on the unmodified code and non-zero (with a message) with patchK applied, run as: cd {W} && NUMBA_CACHE_DIR={W}/.numba_cache PYTHONPATH={W} /venv/bin/python seed_out/demoK.py . Each compares the code's behaviour with an independent computation of what the property says.
  notes.md - for each change: what it is, what specific input/condition it needs, and the test-suite and demo results you observed (before/after).
Leave the worktree on the UNMODIFIED code at the end (`git -C {W} checkout -- outrank`). TIME LIMIT: you have 12 minutes in total. Run the full test suite only ONCE (with your change applied; it takes about 2 minutes; the unmodified tree is known to pass 58 tests) and the demo twice (without / with the change). Prefer a simple, well-aimed change over an elaborate one. Report back a short summary: a one-line description and trigger condition, and confirmation of the test-suite and demo results.""")
