import sys
sys.path.insert(0,'/verif')
import contracts
from pyvc.interp import Interp
from pyvc import solve
reg = contracts.load_all()
I = Interp(reg, 'C01')
obs = I.verify(reg[sys.argv[1]])
for ob in obs:
    from pyvc import run as _run
    ob.lemmas = _run.lemmas_for(reg[sys.argv[1]], ob.name); ob.unfold = _run.unfold_for(reg[sys.argv[1]], ob.name)
    if sys.argv[2] in ob.name:
        text, ax = solve.to_smt2(ob, ob.lemmas)
        open(sys.argv[3],'w').write(text)
        print(ob.name, ax, len(text))
        break
