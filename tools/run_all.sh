#!/bin/bash
# tools/run_all.sh [tier] : every claimed check on the current tree, one summary line each (writes evidence/)
tier=${1:-quick}
cd "$(dirname "$0")/.."
for id in $(jq -r '.checks[].property_id' MANIFEST.json 2>/dev/null || ls props | grep -o 'C[0-9]*' | sort -u); do
  out=$(./check "$id" --tier "$tier" 2>&1); rc=$?
  echo "$out" | grep -E "^(VIOLATION|UNDECIDED|UNBOUND|KNOWN-FINDING)" | cut -c1-220
  echo "$out" | grep -E "^$id:" | tail -1
  [ $rc -ne 0 ] && echo "!! $id exit=$rc"
done
