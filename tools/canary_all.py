"""Self-test of the engine: `False` must not be provable at any exit of a function under contract.
A proved canary means the path's assumptions are contradictory: legitimate only for paths that are really infeasible
(duplicates created by path splitting); every hit is listed for inspection.  usage: PYVC_CANARY=1 python3-vt tools/canary_all.py [key ...]"""
import os
import sys
import time
sys.path.insert(0, '/verif')
os.environ['PYVC_CANARY'] = '1'
import contracts
from pyvc.interp import Interp
from pyvc import solve, run
from pyvc.sym import EngineError
reg = contracts.load_all()
keys = sys.argv[1:] or [k for k, c in reg.items() if not c.get('external')]
allobs = []
for key in keys:
    c = reg[key]
    I = Interp(reg, 'CANARY')
    try:
        obs = I.verify(c)
    except EngineError as e:
        print('UNBOUND', key, str(e)[:100])
        continue
    can = [o for o in obs if '/canary.' in o.name]
    for o in can:
        o.lemmas = run.lemmas_for(c, o.name)
        o.unfold = run.unfold_for(c, o.name)
    allobs.extend(can)
print(len(allobs), 'canaries')
t = time.time()
res = solve.discharge(allobs, timeout_s=20)
import re
base = lambda n: re.sub(r'#\d+$', '', n)
alive = {base(r.ob.name) for r in res if r.status != 'proved'}
bad = [r for r in res if r.status == 'proved' and base(r.ob.name) not in alive]
print('infeasible duplicates (fine):', sum(1 for r in res if r.status == 'proved') - len(bad))
for r in bad:
    print('VACUOUS-EXIT', r.ob.name, r.backend, round(r.seconds, 2))
print('done', len(bad), 'proved canaries of', len(res), round(time.time() - t, 1), 's')
