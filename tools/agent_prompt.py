import sys, json
pid = sys.argv[1]
hint = sys.argv[2] if len(sys.argv) > 2 else ''
txt = open(f'/tmp/prop-{pid}.txt').read()
print(f"""You are helping test a verification framework by producing a realistic, SUBTLE defect for a Python project. Work ONLY inside the git worktree /tmp/wt2-{pid} (a checkout of the project outbrain/outrank, a feature-ranking CLI/library). Do not read or touch /verif or /repo. Do not commit anything. Do NOT use `git stash` (the stash is shared between worktrees and other people are working in sibling worktrees); to compare before/after use `git -C /tmp/wt2-{pid} diff > seed_out/patch.diff` then `git apply -R seed_out/patch.diff` / `git apply seed_out/patch.diff`.

The property that your change must BREAK:

---
{txt}
---

Task: make a small source change (a few lines) to the project code under /tmp/wt2-{pid}/outrank that breaks this property while (1) the package still imports/compiles, and (2) the existing test suite still passes exactly as before. The change should need something SPECIFIC to manifest (a particular interleaving, a multi-step sequence of operations, an unusual input or boundary value, a particular configuration/flag combination, or two cooperating sites that each look fine alone) rather than something ordinary use would expose at once. It should look like a plausible mistake or "optimisation" a developer could make. {hint}

How to run things (use exactly this environment so the worktree's code is what runs):
  cd /tmp/wt2-{pid} && NUMBA_CACHE_DIR=/tmp/wt2-{pid}/.numba_cache PYTHONPATH=/tmp/wt2-{pid} /venv/bin/python -c "import outrank; print(outrank.__file__)"   # must print a path under /tmp/wt2-{pid}
  cd /tmp/wt2-{pid} && NUMBA_CACHE_DIR=/tmp/wt2-{pid}/.numba_cache PYTHONPATH=/tmp/wt2-{pid} /venv/bin/python -m pytest -q -p no:cacheprovider --timeout=900 tests/
On the unmodified tree all 58 tests pass. After your change the same 58 must pass. Always set NUMBA_CACHE_DIR as shown. There is no network.

Deliverables (write them into /tmp/wt2-{pid}/seed_out/):
  1. patch.diff  - output of `git -C /tmp/wt2-{pid} diff` for your source change only (do not include seed_out or cache files).
  2. demo.py     - a small standalone program that exits 0 on the unmodified code and exits non-zero (with a message) on the modified code, run as: cd /tmp/wt2-{pid} && NUMBA_CACHE_DIR=/tmp/wt2-{pid}/.numba_cache PYTHONPATH=/tmp/wt2-{pid} /venv/bin/python seed_out/demo.py . It should demonstrate the property violation against an independent computation of what the property says.
  3. notes.md    - what the change is, what specific input/condition is needed for it to manifest, and the commands you ran with their results (test suite before/after, demo before/after).
Leave the worktree WITH your change applied. Report back a short summary: the diff, the trigger condition, and confirmation of the test-suite and demo results.""")
