#!/bin/bash
# /tmp/mut_dev.sh <patch> <contract key> : run dev_verify against a patched scratch copy
scratch=$(mktemp -d /tmp/outrank-mut.XXXXXX); trap 'rm -rf "$scratch"' EXIT
( cd /repo && git ls-files -z | xargs -0 cp --parents -t "$scratch" ) 2>/dev/null
( cd "$scratch" && patch -p1 --quiet < "$(readlink -f "$OLDPWD/$1" 2>/dev/null || echo "$1")" ) || exit 9
cd /verif && VERIF_REPO="$scratch" python3-vt tools/dev_verify.py "$2" ${3:-8} 2>&1 | grep -v "^reachable\|WARNING\|^proved"
