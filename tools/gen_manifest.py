#!/usr/bin/env python3
"""Regenerate MANIFEST.json from props/*.py (claimed) and props/not_applicable.json."""
import importlib
import json
import os
import sys

VERIF = os.path.dirname(os.path.dirname(os.path.abspath(__file__)))
sys.path.insert(0, VERIF)
props = [json.loads(l) for l in open(os.path.join(VERIF, 'properties.jsonl'))]
na = json.load(open(os.path.join(VERIF, 'props', 'not_applicable.json')))
checks = []
not_app = []
for p in props:
    pid = p['id']
    path = os.path.join(VERIF, 'props', pid + '.py')
    if pid in na or not os.path.exists(path):
        not_app.append({'property_id': pid, 'reason': na.get(pid, 'no check built yet with this technique')})
        continue
    m = importlib.import_module('props.' + pid)
    level = getattr(m, 'LEVEL', 'proof')
    checks.append({
        'property_id': pid,
        'quick_cmd': f'./check {pid} --tier quick',
        'thorough_cmd': f'./check {pid} --tier thorough',
        'evidence_file': f'/verif/evidence/{pid}.json',
        'replay_cmd_template': f'./check {pid} --replay {{path}}',
        'engine': 'pyvc',
        'level_claimed': {'category': level, 'text': getattr(m, 'LEVEL_TEXT', m.EXPLANATION), 'design_ref': f'DESIGN.md section 3 ({pid}, plan) and section 7 (as built)'},
        'level_note': getattr(m, 'LEVEL_NOTE', 'trusted: ' + '; '.join(getattr(m, 'TRUSTED', [])) + '. assumptions: ' + '; '.join(getattr(m, 'ASSUMPTIONS', []))),
        'technique': getattr(m, 'TECHNIQUE', 'contract-based deductive verification: VCs generated from the real Python AST (sidecar contracts, loop invariants, lemmas), discharged by z3/cvc5; executable contracts on the real code for replay'),
    })
man = {
    'version': 1,
    'setup_cmd': 'cd /verif && ./tools/setup.sh',
    'hooks': {'guard': 'OUTRANK_VERIF', 'enable': 'no source hooks: contracts are sidecar files under /verif/contracts; checks export OUTRANK_VERIF=1 for uniformity',
              'baseline_off_cmd': 'cd /repo && /venv/bin/python -m pytest -ra -q -p no:cacheprovider --timeout=900 --continue-on-collection-errors',
              'source_commits': [], 'add_only': True},
    'engines': [{'name': 'pyvc', 'path': '/verif/pyvc', 'serves_properties': [c['property_id'] for c in checks],
                 'kind_free_text': 'verification-condition generator over the real Python AST (sidecar contracts) + z3 5.1 / z3 4.8 / cvc5 back ends; native executable-contract harness for replay and bounded stand-ins'}],
    'checks': checks,
    'not_applicable': not_app,
    'notes': 'exit 0 held / 1 violation (VIOLATION line) / 3 checker error; UNDECIDED and UNBOUND are never violations. Known findings: /verif/known_findings.json',
}
json.dump(man, open(os.path.join(VERIF, 'MANIFEST.json'), 'w'), indent=1)
print('checks:', [c['property_id'] for c in checks], 'not_applicable:', [n['property_id'] for n in not_app])
