import sys, time
sys.path.insert(0,'/verif')
from pyvc import solve, speclib, run
obs = run.lemma_obligations('T', sys.argv[1:])
res = solve.discharge(obs, timeout_s=30)
for r in res:
    print(f'{r.status:10s} {r.seconds:6.2f}s {r.backend:9s} {r.ob.name}  {r.reason}')
