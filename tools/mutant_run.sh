#!/bin/bash
# evidence of runs against modified code never overwrites the committed evidence of the unchanged tree
export VERIF_EVIDENCE_DIR=$(mktemp -d /tmp/verif-ev.XXXXXX)
# tools/mutant_run.sh <patch> <Cxx> [tier]  -- apply a patch to a scratch copy of the repository (outside /repo and
# /verif), run the check against it, remove the copy.  Prints the check's output and its exit status.
set -u
patch_file=$(readlink -f "$1"); pid=$2; tier=${3:-quick}
scratch=$(mktemp -d /tmp/outrank-mut.XXXXXX)
trap 'rm -rf "$scratch"' EXIT
( cd /repo && git ls-files -z | xargs -0 cp --parents -t "$scratch" ) 2>/dev/null
( cd /repo && git diff HEAD --binary ) | ( cd "$scratch" && git apply --allow-empty - 2>/dev/null )
( cd "$scratch" && patch -p1 --quiet < "$patch_file" ) || { echo "PATCH-FAILED $patch_file"; exit 9; }
cd "$(dirname "$0")/.."
VERIF_REPO="$scratch" ./check "$pid" --tier "$tier"
echo "MUTANT-EXIT $?"
