#!/bin/bash
# tools/seed8_confirm.sh <Cxx> : confirm a round-8 change in its scratch worktree /tmp/wt8-<Cxx> (never /repo):
# demo exits 0 without the change, non-zero with it, and the repository's test suite still passes with it
p=$1; W=/tmp/wt8-$p
export NUMBA_CACHE_DIR=$W/.numba_cache PYTHONPATH=$W
cd $W || exit 2
git -C $W checkout -- outrank
/venv/bin/python seed_out/demo1.py >/dev/null 2>&1; a=$?
git -C $W apply seed_out/patch1.diff || { echo "$p patch does not apply"; exit 2; }
/venv/bin/python seed_out/demo1.py >/dev/null 2>&1; b=$?
t=$(/venv/bin/python -m pytest -q -p no:cacheprovider --timeout=900 tests/ 2>&1 | tail -1)
git -C $W checkout -- outrank
echo "$p demo_clean=$a demo_patched=$b suite_patched=[$t]"
