#!/bin/bash
# tools/seed7_run.sh <Cxx> : round 8 - one property-breaking change (patch1.diff, exit 1 expected) and one behaviour-preserving
# refactoring (harmless1.diff, exit 0 and no VIOLATION line expected) per property, each on a scratch copy; one line per change
p=$1
cd "$(dirname "$0")/.."
for f in seeded/$p-round8/patch1.diff; do
  [ -f "$f" ] || continue
  out=$(tools/mutant_run.sh "$f" "$p" 2>&1)
  rc=$(echo "$out" | grep -o "MUTANT-EXIT [0-9]*" | tail -1)
  viol=$(echo "$out" | grep -c "^VIOLATION")
  first=$(echo "$out" | grep "^VIOLATION" | head -1 | sed 's/.*obligation=//' | cut -c1-90)
  und=$(echo "$out" | grep -E "^(UNDECIDED|UNBOUND|CHECKER)" | head -2 | cut -c1-110 | tr '\n' '|')
  echo "$p $(basename $f) $rc violations=$viol first=[$first] $und"
done
