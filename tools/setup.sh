#!/bin/bash
# setup: nothing to build (pure python on the pre-installed tooling venv); verify the tools are present.
set -e
python3-vt -c "import z3; assert z3.get_version_string().startswith('5.'), z3.get_version_string()"
z3-new --version >/dev/null
/usr/bin/z3 --version >/dev/null
/usr/bin/cvc5 --version >/dev/null
/venv/bin/python -c "import numpy, numba, pandas"
mkdir -p /verif/evidence /verif/replay
echo "pyvc setup ok"
