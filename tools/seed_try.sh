#!/bin/bash
# evidence of runs against modified code never overwrites the committed evidence of the unchanged tree
export VERIF_EVIDENCE_DIR=$(mktemp -d /tmp/verif-ev.XXXXXX)
# tools/seed_try.sh <seeded dir> <Cxx> [tier] : apply seeded/<dir>/patch.diff to /repo, run the check, undo straight afterwards.
d=$(readlink -f "$1"); pid=$2; tier=${3:-quick}
cd /verif
git -C /repo diff --quiet || { echo "REPO DIRTY"; exit 9; }
git -C /repo apply "$d/patch.diff" || { echo "APPLY-FAILED"; exit 9; }
./check "$pid" --tier "$tier"; rc=$?
git -C /repo checkout -- .
echo "SEED-EXIT $rc"
