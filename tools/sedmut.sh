#!/bin/bash
# evidence of runs against modified code never overwrites the committed evidence of the unchanged tree
export VERIF_EVIDENCE_DIR=$(mktemp -d /tmp/verif-ev.XXXXXX)
# tools/sedmut.sh <repo-relative-file> <sed-expr> <driver...>   (ad-hoc mutant on a scratch copy; dev helper)
set -u
f=$1; expr=$2; shift 2
scratch=$(mktemp -d /tmp/outrank-mut.XXXXXX)
trap 'rm -rf "$scratch"' EXIT
( cd /repo && git ls-files -z | xargs -0 cp --parents -t "$scratch" ) 2>/dev/null
sed -i "$expr" "$scratch/$f"
if diff -q "$scratch/$f" "/repo/$f" >/dev/null; then echo "NO-CHANGE"; exit 9; fi
diff "/repo/$f" "$scratch/$f"
cd "$(dirname "$0")/.."
VERIF_REPO="$scratch" "$@"
