import sys, time
sys.path.insert(0,'/verif')
import contracts
from pyvc.interp import Interp
from pyvc import solve, speclib, run
reg = contracts.load_all()
I = Interp(reg, 'T')
t=time.time()
c=reg[sys.argv[1]]
obs = I.verify(c)
for ob in obs: ob.lemmas = run.lemmas_for(c, ob.name); ob.unfold = run.unfold_for(c, ob.name)
obs += run.lemma_obligations('T', set(c.get('lemmas', [])) | {l for v in (c.get('lemma_map') or {}).values() for l in v})
print(len(obs), 'obligations', time.time()-t)
res = solve.discharge(obs, timeout_s=float(sys.argv[2]) if len(sys.argv)>2 else 10)
for r in res:
    print(f'{r.status:10s} {r.seconds:6.2f}s {r.backend:9s} {r.ob.name}  {r.reason}')
